package exec

import (
	"fmt"

	"github.com/pion/rtcp"
)

// EnumStrings calls String() and %v/%+v on all 256 values of an enum-like
// helper type and reports the values that panicked (C17).
func (s *State) EnumStrings(typ string) V {
	var panics L
	for x := 0; x < 256; x++ {
		pan, _ := guarded(func() string { return fmt.Sprintf("enumstring %s %d", typ, x) }, func() {
			var v fmt.Stringer
			switch typ {
			case "PacketType":
				v = rtcp.PacketType(x)
			case "SDESType":
				v = rtcp.SDESType(x)
			case "BlockTypeType":
				v = rtcp.BlockTypeType(x)
			case "TTLorHopLimitType":
				v = rtcp.TTLorHopLimitType(x)
			case "ChunkHi": // XR RLE chunks x*256 .. x*256+255
				for lo := 0; lo < 256; lo++ {
					c := rtcp.Chunk(x<<8 | lo)
					_ = c.String()
					_ = fmt.Sprintf("%v %+v", c, c)
				}
				return
			default:
				panic("enumstring: unknown type " + typ)
			}
			_ = v.String()
			_ = fmt.Sprintf("%v %+v %s", v, v, v)
		})
		if pan {
			panics = append(panics, x)
		}
	}
	if panics == nil {
		panics = L{}
	}
	return s.emit(V{"op": "enumstring", "h": 0, "entry": typ, "checked": 256, "failures": panics, "panic": false})
}
