package exec

import (
	"fmt"

	"github.com/pion/rtcp"

	"verif/harness/abs"
)

func pairsAbs(ps []rtcp.NackPair) L {
	out := make(L, len(ps))
	for i, p := range ps {
		out[i] = V{"pid": int(p.PacketID), "blp": int(p.LostPackets)}
	}
	return out
}

func u16s(xs []uint16) L {
	out := make(L, len(xs))
	for i, x := range xs {
		out[i] = int(x)
	}
	return out
}

// NackPairs calls NackPairsFromSequenceNumbers.
func (s *State) NackPairs(in []uint16) (V, []rtcp.NackPair) {
	arg := append([]uint16(nil), in...)
	var ps []rtcp.NackPair
	pan, _ := guarded(func() string { return fmt.Sprintf("nackpairs %v", in) }, func() { ps = rtcp.NackPairsFromSequenceNumbers(arg) })
	same := len(arg) == len(in)
	for i := range in {
		same = same && arg[i] == in[i]
	}
	return s.emit(V{"op": "nackpairs", "h": 0, "args": u16s(in), "out": pairsAbs(ps), "panic": pan, "argsame": same}), ps
}

// PacketLists calls NackPair.PacketList for one packet ID and many bitmaps.
func (s *State) PacketLists(id uint16, bms []uint16) V {
	out := make(L, len(bms))
	pan, _ := guarded(func() string { return fmt.Sprintf("packetlists %d", id) }, func() {
		for i, bm := range bms {
			p := rtcp.NackPair{PacketID: id, LostPackets: rtcp.PacketBitmap(bm)}
			out[i] = u16s(p.PacketList())
		}
	})
	if pan {
		out = L{}
	}
	return s.emit(V{"op": "packetlists", "h": 0, "id": int(id), "args": u16s(bms), "out": out, "panic": pan})
}

// Ranges calls NackPair.Range with the callback returning false on its
// (k+1)-th call, for k = 0..17; out[k] is the list of visited numbers.
func (s *State) Ranges(pid, blp uint16) V {
	out := make(L, 18)
	changed := false
	pan, _ := guarded(func() string { return fmt.Sprintf("ranges %d %d", pid, blp) }, func() {
		for k := 0; k < 18; k++ {
			p := rtcp.NackPair{PacketID: pid, LostPackets: rtcp.PacketBitmap(blp)}
			var seen []uint16
			p.Range(func(x uint16) bool {
				seen = append(seen, x)
				return len(seen) <= k
			})
			out[k] = u16s(seen)
			if p.PacketID != pid || uint16(p.LostPackets) != blp {
				changed = true
			}
		}
	})
	if pan {
		out = L{}
	}
	return s.emit(V{"op": "ranges", "h": 0, "pid": int(pid), "blp": int(blp), "out": out, "panic": pan, "argsame": !changed})
}

var _ = abs.I
