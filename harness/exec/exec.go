// Package exec performs the public API calls of pion/rtcp on a small handle
// store and records one event per call (DESIGN.md 4.2). It judges nothing.
package exec

import (
	"bytes"
	"crypto/sha256"
	"encoding/json"
	"fmt"
	"hash/fnv"
	"io"
	"os"
	"reflect"
	"regexp"
	"runtime/metrics"
	"sync"
	"sync/atomic"
	"time"

	"github.com/pion/rtcp"

	"verif/harness/abs"
)

type V = abs.V
type L = abs.L

var same = V{"k": "SAME"}
var none = V{"k": "NONE"}

// State is the caller-side state of the session machine (spec/Codec.tla).
type State struct {
	Pk  map[int]any // rtcp.Packet or []rtcp.Packet
	Buf map[int][]byte
	// spare[h]: spare-capacity regions behind the byte slices of the packet built
	// under h; in[h]/orig[h]: the buffer the packet under h was decoded from (the
	// library may alias it) and a pristine copy
	spare map[int][][]byte
	in    map[int][]byte
	orig  map[int][]byte
	// kept: slices the library returned earlier in this case (Marshal outputs, DestinationSSRC lists)
	// with a copy taken at the time, to notice a later call changing an earlier result
	keptB [][2][]byte
	keptU [][2][]uint32
	W     io.Writer
	N     int // events written
	Quiet bool
	// NoAlloc disables the (process-wide) allocation measurement; set when
	// several goroutines run calls at once.
	NoAlloc bool
	enc     *json.Encoder
}

func New(w io.Writer) *State {
	s := &State{Pk: map[int]any{}, Buf: map[int][]byte{}, W: w, spare: map[int][][]byte{}, in: map[int][]byte{}, orig: map[int][]byte{}}
	s.enc = json.NewEncoder(w)
	return s
}

func (s *State) emit(ev V) V {
	if !s.Quiet {
		if err := s.enc.Encode(ev); err != nil {
			panic(err)
		}
	}
	s.N++
	return ev
}

func absAny(x any) V {
	switch p := x.(type) {
	case []rtcp.Packet:
		return V{"k": "LIST", "pkts": abs.AbsList(p)}
	case rtcp.Packet:
		return abs.Abs(p)
	}
	return none
}

// BuildAny constructs a packet, a packet list (k = LIST) or a compound packet.
func BuildAny(v any) any {
	m := v.(V)
	// one value in three is laid out in arena mode (abs.ArenaOn); which ones is a function of the value
	abs.ArenaOn = false
	if js, err := json.Marshal(v); err == nil {
		h := fnv.New32a()
		h.Write(js)
		abs.ArenaOn = h.Sum32()%3 == 0
	}
	abs.ArenaReset()
	defer func() { abs.ArenaOn = false }()
	if m["k"] == "LIST" {
		return abs.BuildList(m["pkts"])
	}
	return abs.Build(v)
}

var buildMu sync.Mutex

// memTouched reports whether memory the caller owns around the packet under h
// was written: spare capacity behind its byte slices, or the buffer it was
// decoded from.
func (s *State) memSame(h int) bool {
	for _, sp := range s.spare[h] {
		for _, b := range sp {
			if b != abs.SpareFill {
				return false
			}
		}
	}
	if in, ok := s.in[h]; ok && !bytes.Equal(in, s.orig[h]) {
		return false
	}
	return true
}

// earlierSame reports whether every result returned earlier in this case still has its value.
func (s *State) earlierSame() bool {
	for _, k := range s.keptB {
		if !bytes.Equal(k[0], k[1]) {
			return false
		}
	}
	for _, k := range s.keptU {
		if len(k[0]) != len(k[1]) {
			return false
		}
		for i := range k[0] {
			if k[0][i] != k[1][i] {
				return false
			}
		}
	}
	return true
}

func (s *State) keepB(b []byte) {
	if len(b) > 0 && len(b) <= 4096 && len(s.keptB) < 16 {
		s.keptB = append(s.keptB, [2][]byte{b, append([]byte(nil), b...)})
	}
}

func (s *State) keepU(u []uint32) {
	if len(u) > 0 && len(s.keptU) < 16 {
		s.keptU = append(s.keptU, [2][]uint32{u, append([]uint32(nil), u...)})
	}
}

func (s *State) Reset() V {
	s.keptB, s.keptU = nil, nil
	s.Pk = map[int]any{}
	s.Buf = map[int][]byte{}
	s.spare = map[int][][]byte{}
	s.in = map[int][]byte{}
	s.orig = map[int][]byte{}
	return s.emit(V{"op": "reset", "h": 0})
}

func (s *State) Build(h int, v any) V {
	buildMu.Lock()
	abs.Spare = [][]byte{}
	s.Pk[h] = BuildAny(v)
	s.spare[h] = abs.Spare
	abs.Spare = nil
	buildMu.Unlock()
	delete(s.in, h)
	return s.emit(V{"op": "build", "h": h, "v": v})
}

// BuildNow builds v after setting every "ntp" field in it to the wall-clock time of the call plus off (as an
// NTP timestamp). The event records the offset, so that re-running the case relates the value to the clock of
// the re-run (a behaviour that depends on the distance between a timestamp and "now" is otherwise unrepeatable).
func (s *State) BuildNow(h int, v any, off time.Duration) V {
	now := time.Now().Add(off)
	ntp := abs.U64((uint64(now.Unix())+2208988800)<<32 | uint64(now.Nanosecond())<<32/1000000000)
	var patch func(x any)
	patch = func(x any) {
		switch t := x.(type) {
		case V:
			for k, e := range t {
				if k == "ntp" {
					t[k] = ntp
				} else {
					patch(e)
				}
			}
		case L:
			for _, e := range t {
				patch(e)
			}
		}
	}
	patch(v)
	buildMu.Lock()
	abs.Spare = [][]byte{}
	s.Pk[h] = BuildAny(v)
	s.spare[h] = abs.Spare
	abs.Spare = nil
	buildMu.Unlock()
	delete(s.in, h)
	return s.emit(V{"op": "build", "h": h, "v": v, "ntpnow": int(off)})
}

// Adopt stores an already constructed real packet under handle h and logs
// its projection as a build event.
func (s *State) Adopt(h int, p any) V {
	s.Pk[h] = p
	return s.emit(V{"op": "build", "h": h, "v": absAny(p)})
}

func (s *State) SetBuf(h int, b []byte) V {
	s.Buf[h] = append([]byte(nil), b...)
	return s.emit(V{"op": "setbuf", "h": h, "bytes": abs.Bytes(b)})
}

// ---- watchdog for hangs (C01) ----
var callStart atomic.Int64
var callDesc atomic.Value
var callDecode atomic.Bool // the call in flight is a decode (C01 speaks about those)

func init() {
	go func() {
		for {
			time.Sleep(200 * time.Millisecond)
			st := callStart.Load()
			if st == 0 {
				continue
			}
			el := time.Since(time.Unix(0, st))
			d := ""
			if el > 10*time.Second {
				// the description is only built when it is needed (it formats the whole input)
				if f, ok := callDesc.Load().(func() string); ok {
					d = f()
				}
			}
			if len(d) > 4000 {
				d = d[:4000]
			}
			if callDecode.Load() && el > 10*time.Second {
				fmt.Fprintf(os.Stderr, "VERIF_HANG %s\n", d)
				os.Exit(97)
			}
			if el > 300*time.Second { // not a decode: no property bounds its time; give up as a machinery failure
				fmt.Fprintf(os.Stderr, "VERIF_STUCK %s\n", d)
				os.Exit(98)
			}
		}
	}()
}

func guardedDecode(desc func() string, f func()) (panicked bool, msg string) {
	callDecode.Store(true)
	defer callDecode.Store(false)
	return guarded(desc, f)
}

// unguarded recovers panics but does not arm the watchdog.
func unguarded(f func()) (panicked bool, msg string) {
	defer func() {
		if r := recover(); r != nil {
			panicked = true
			msg = fmt.Sprint(r)
		}
	}()
	f()
	return
}

func guarded(desc func() string, f func()) (panicked bool, msg string) {
	callDesc.Store(desc)
	callStart.Store(time.Now().UnixNano())
	defer func() {
		callStart.Store(0)
		if r := recover(); r != nil {
			panicked = true
			msg = fmt.Sprint(r)
		}
	}()
	f()
	return
}

var allocSample = []metrics.Sample{{Name: "/gc/heap/allocs:bytes"}}

func allocNow() uint64 {
	metrics.Read(allocSample)
	return allocSample[0].Value.Uint64()
}

func (s *State) allocNow() uint64 {
	if s.NoAlloc {
		return 0
	}
	return allocNow()
}

func post(before V, x any) V {
	after := absAny(x)
	if reflect.DeepEqual(before, after) {
		return same
	}
	return after
}

func (s *State) Marshal(h int) V {
	x := s.Pk[h]
	before := absAny(x)
	var out []byte
	var err error
	pan, msg := guarded(func() string { return fmt.Sprintf("marshal %v", before) }, func() {
		switch p := x.(type) {
		case []rtcp.Packet:
			out, err = rtcp.Marshal(p)
		case rtcp.Packet:
			out, err = p.Marshal()
		}
	})
	ok := !pan && err == nil
	ev := V{"op": "marshal", "h": h, "ok": ok, "out": L{}, "panic": pan, "post": post(before, x), "memsame": s.memSame(h) && s.earlierSame()}
	if ok {
		if _, raw := x.(*rtcp.RawPacket); !raw { // RawPacket.Marshal returns the packet itself (documented)
			s.keepB(out)
		}
		s.Buf[h] = append([]byte(nil), out...)
		ev["out"] = abs.Bytes(out)
	} else {
		s.Buf[h] = nil
	}
	if pan {
		ev["msg"] = msg
	} else if err != nil {
		ev["msg"] = err.Error()
	}
	return s.emit(ev)
}

func (s *State) Size(h int) V {
	x := s.Pk[h]
	before := absAny(x)
	n := -1
	pan, _ := guarded(func() string { return fmt.Sprintf("size %v", before) }, func() {
		switch p := x.(type) {
		case []rtcp.Packet:
			n = rtcp.CompoundPacket(p).MarshalSize()
		case rtcp.Packet:
			n = p.MarshalSize()
		}
	})
	if pan {
		n = -2
	}
	return s.emit(V{"op": "size", "h": h, "out": n, "post": post(before, x), "memsame": s.memSame(h) && s.earlierSame()})
}

func (s *State) Dest(h int) V {
	x := s.Pk[h]
	before := absAny(x)
	var d []uint32
	pan, _ := guarded(func() string { return fmt.Sprintf("dest %v", before) }, func() {
		switch p := x.(type) {
		case []rtcp.Packet:
			d = rtcp.CompoundPacket(p).DestinationSSRC()
		case rtcp.Packet:
			d = p.DestinationSSRC()
		}
	})
	out := abs.U32s(d)
	if pan {
		out = L{L{-2}}
	}
	ev := V{"op": "dest", "h": h, "out": out, "post": post(before, x), "memsame": s.memSame(h) && s.earlierSame()}
	if _, remb := x.(*rtcp.ReceiverEstimatedMaximumBitrate); !remb { // REMB returns its own SSRCs slice (documented field)
		s.keepU(d)
	}
	return s.emit(ev)
}

type headerer interface{ Header() rtcp.Header }

// Header calls the Header() accessor where the type offers one; ok=false
// (and no event) otherwise.
func (s *State) Header(h int) (V, bool) {
	x := s.Pk[h]
	var hd rtcp.Header
	switch p := x.(type) {
	case *rtcp.TransportLayerCC:
		hd = p.Header
	case headerer:
		before := absAny(x)
		pan, _ := guarded(func() string { return fmt.Sprintf("header %v", before) }, func() { hd = p.Header() })
		if pan {
			return s.emit(V{"op": "header", "h": h, "out": V{"p": false, "c": -2, "t": -2, "len": -2}, "post": post(before, x)}), true
		}
		return s.emit(V{"op": "header", "h": h, "out": abs.Hdr(hd), "post": post(before, x)}), true
	default:
		return nil, false
	}
	return s.emit(V{"op": "header", "h": h, "out": abs.Hdr(hd), "post": same}), true
}

var fmtPanic = regexp.MustCompile(`%!\+?[a-zA-Z]\(PANIC=[A-Za-z]+ method: [^)]{0,120}`)

func (s *State) String(h int) V {
	x := s.Pk[h]
	before := absAny(x)
	var txt string
	pan, msg := guarded(func() string { return fmt.Sprintf("string %v", before) }, func() {
		switch p := x.(type) {
		case []rtcp.Packet:
			txt = rtcp.CompoundPacket(p).String() + fmt.Sprintf("%v|%+v", p, p)
		case rtcp.Packet:
			if st, ok := p.(fmt.Stringer); ok {
				txt = st.String()
			}
			txt += fmt.Sprintf("|%v|%+v", p, p)
			// value (non-pointer) formatting as applications log it
			txt += fmt.Sprintf("|%v", reflect.Indirect(reflect.ValueOf(p)).Interface())
		}
	})
	if !pan {
		// fmt recovers a panic raised inside a nested String method and prints it in place: still a panic of String()
		if m := fmtPanic.FindString(txt); m != "" {
			pan, msg = true, "recovered by fmt: "+m
		}
	}
	sum := sha256.Sum256([]byte(txt))
	ev := V{"op": "string", "h": h, "panic": pan, "out": abs.Bytes(sum[:6]), "post": post(before, x), "n": len(txt), "memsame": s.memSame(h) && s.earlierSame()}
	if pan {
		ev["msg"] = msg
	}
	return s.emit(ev)
}

// NewOf returns a fresh receiver for a decode entry point.
func NewOf(entry string) rtcp.Packet {
	switch entry {
	case "SR":
		return new(rtcp.SenderReport)
	case "RR":
		return new(rtcp.ReceiverReport)
	case "SDES":
		return new(rtcp.SourceDescription)
	case "BYE":
		return new(rtcp.Goodbye)
	case "APP":
		return new(rtcp.ApplicationDefined)
	case "NACK":
		return new(rtcp.TransportLayerNack)
	case "RRR":
		return new(rtcp.RapidResynchronizationRequest)
	case "TWCC":
		return new(rtcp.TransportLayerCC)
	case "CCFB":
		return new(rtcp.CCFeedbackReport)
	case "PLI":
		return new(rtcp.PictureLossIndication)
	case "SLI":
		return new(rtcp.SliceLossIndication)
	case "FIR":
		return new(rtcp.FullIntraRequest)
	case "REMB":
		return new(rtcp.ReceiverEstimatedMaximumBitrate)
	case "XR":
		return new(rtcp.ExtendedReport)
	case "RAW":
		return new(rtcp.RawPacket)
	case "CP":
		return new(rtcp.CompoundPacket)
	}
	panic("exec: unknown entry " + entry)
}

// Entries are the 16 Packet implementations' decoders.
var Entries = []string{"SR", "RR", "SDES", "BYE", "APP", "NACK", "RRR", "TWCC", "CCFB", "PLI", "SLI", "FIR", "REMB", "XR", "RAW", "CP"}

// Units are the exported sub-structure decoders.
var Units = []string{"hdr", "rb", "chunk", "item", "rl", "sv", "delta"}

func decodeEvent(op string, entry string, b, h int, in, orig []byte, pan bool, msg string, err error, alloc uint64, out any) V {
	ok := !pan && err == nil
	ev := V{"op": op, "entry": entry, "b": b, "h": h, "ok": ok, "panic": pan, "slow": false,
		"alloc": int(alloc), "bufsame": bytes.Equal(in, orig), "out": out}
	if pan {
		ev["msg"] = msg
	} else if err != nil {
		ev["msg"] = err.Error()
	}
	return ev
}

// DgramHandle, when non-zero, names the handle that holds the result of
// rtcp.Unmarshal on the same buffer (used for the CompoundPacket cross-check).
func (s *State) Unmarshal(entry string, b, h int) V { return s.UnmarshalRef(entry, b, h, 0) }

func (s *State) UnmarshalRef(entry string, b, h, dh int) V {
	return s.UnmarshalFull(entry, b, h, dh, 0, 0)
}

// withTail copies b into a slice that has spare capacity behind it, filled with a pattern: the memory a
// real receive buffer has behind the datagram. A decoder must neither write there nor let what is there
// influence its result.
const tailLen = 24

func withTail(b []byte, fill byte) []byte {
	full := make([]byte, len(b)+tailLen)
	copy(full, b)
	for i := len(b); i < len(full); i++ {
		full[i] = fill ^ byte(i)
	}
	return full[:len(b)]
}

func tailIntact(in []byte, fill byte) bool {
	full := in[:len(in)+tailLen]
	for i := len(in); i < len(full); i++ {
		if full[i] != fill^byte(i) {
			return false
		}
	}
	return true
}

// UnmarshalFull: eqh, when non-zero, names a handle whose packet this result
// is expected to equal (same bytes up to the declared length, C13).
// eqb is the buffer that eqh was decoded from.
func (s *State) UnmarshalFull(entry string, b, h, dh, eqh, eqb int) V {
	orig := s.Buf[b]
	in := withTail(orig, 0xA5)
	p := NewOf(entry)
	var err error
	a0 := s.allocNow()
	pan, msg := guardedDecode(func() string { return fmt.Sprintf("unmarshal %s %v", entry, orig) }, func() { err = p.Unmarshal(in) })
	alloc := s.allocNow() - a0
	var out any = none
	delete(s.spare, h)
	tailsame := true
	if !pan && err == nil {
		out = abs.Abs(p)
		s.Pk[h] = p
		s.in[h], s.orig[h] = in, append([]byte(nil), in...)
		// the same octets with other memory behind them
		q := NewOf(entry)
		var err2 error
		pan2, _ := guardedDecode(func() string { return fmt.Sprintf("unmarshal %s %v", entry, orig) }, func() { err2 = q.Unmarshal(withTail(orig, 0x3C)) })
		tailsame = !pan2 && err2 == nil && reflect.DeepEqual(out, abs.Abs(q))
	} else {
		delete(s.Pk, h)
		delete(s.in, h)
	}
	ev := decodeEvent("unmarshal", entry, b, h, in, orig, pan, msg, err, alloc, out)
	if !tailIntact(in, 0xA5) {
		ev["bufsame"] = false
	}
	ev["tailsame"] = tailsame
	ev["dh"] = dh
	ev["eqh"] = eqh
	ev["eqb"] = eqb
	return s.emit(ev)
}

// QuietDecode runs b through rtcp.Unmarshal and through the decoder of kind entry without recording
// events (soak runs: very many distinct inputs in one process). The watchdog is armed, so a call that
// does not return ends the process with a hang report; a panic is returned for the caller to record.
func (s *State) QuietDecode(entry string, b []byte, note func() string) (panicked bool) {
	p1, _ := guardedDecode(note, func() { _, _ = rtcp.Unmarshal(append([]byte(nil), b...)) })
	p2, _ := guardedDecode(note, func() { _ = NewOf(entry).Unmarshal(append([]byte(nil), b...)) })
	return p1 || p2
}

// UnmarshalInto decodes buffer b into the packet handle h already holds (a receiver the caller uses
// again, or a packet it built). What the receiver holds afterwards is judged like any decode: the
// model's Unmarshal does not look at the previous contents. The event also carries what a fresh
// receiver gives for the same bytes ("fresh") and whether memory the caller still owns was written:
// the buffer the previous contents were decoded from, and the outputs of earlier Marshal calls.
func (s *State) UnmarshalInto(entry string, b, h int) V {
	cur, ok := s.Pk[h].(rtcp.Packet)
	if !ok || reflect.TypeOf(cur) != reflect.TypeOf(NewOf(entry)) {
		return s.Unmarshal(entry, b, h)
	}
	orig := s.Buf[b]
	in := append([]byte(nil), orig...)
	fresh := NewOf(entry)
	var ferr error
	fpan, _ := guardedDecode(func() string { return fmt.Sprintf("unmarshal %s %v", entry, orig) }, func() { ferr = fresh.Unmarshal(append([]byte(nil), orig...)) })
	var err error
	a0 := s.allocNow()
	pan, msg := guardedDecode(func() string { return fmt.Sprintf("unmarshal into used receiver %s %v", entry, orig) }, func() { err = cur.Unmarshal(in) })
	alloc := s.allocNow() - a0
	memsame := true
	if old, ok := s.in[h]; ok && !bytes.Equal(old, s.orig[h]) {
		memsame = false
	}
	for _, k := range s.keptB {
		if !bytes.Equal(k[0], k[1]) {
			memsame = false
		}
	}
	var out any = none
	delete(s.spare, h)
	if !pan && err == nil {
		out = abs.Abs(cur)
		s.in[h], s.orig[h] = in, append([]byte(nil), in...)
	} else {
		delete(s.Pk, h)
		delete(s.in, h)
	}
	ev := decodeEvent("unmarshal", entry, b, h, in, orig, pan, msg, err, alloc, out)
	ev["dh"], ev["eqh"], ev["eqb"] = 0, 0, 0
	ev["reuse"] = true
	ev["memsame"] = memsame
	fv := V{"ok": !fpan && ferr == nil, "panic": fpan, "out": any(none)}
	if !fpan && ferr == nil {
		fv["out"] = abs.Abs(fresh)
	}
	ev["fresh"] = fv
	return s.emit(ev)
}

func (s *State) Datagram(b, h int) V { return s.DatagramParts(b, h, nil) }

// DatagramParts decodes buffer b; parts names the handles that hold the
// results of decoding each frame of b on its own (for the locality check).
func (s *State) DatagramParts(b, h int, parts []int) V {
	orig := s.Buf[b]
	in := withTail(orig, 0xA5)
	var ps []rtcp.Packet
	var err error
	a0 := s.allocNow()
	pan, msg := guardedDecode(func() string { return fmt.Sprintf("datagram %v", orig) }, func() { ps, err = rtcp.Unmarshal(in) })
	alloc := s.allocNow() - a0
	out := L{}
	if !pan {
		out = abs.AbsList(ps)
	}
	tailsame := true
	if !pan && err == nil {
		var qs []rtcp.Packet
		var err2 error
		pan2, _ := guardedDecode(func() string { return fmt.Sprintf("datagram %v", orig) }, func() { qs, err2 = rtcp.Unmarshal(withTail(orig, 0x3C)) })
		tailsame = !pan2 && err2 == nil && reflect.DeepEqual(out, abs.AbsList(qs))
	}
	delete(s.spare, h)
	if !pan && err == nil {
		s.Pk[h] = ps
		s.in[h], s.orig[h] = in, append([]byte(nil), in...)
	} else {
		delete(s.Pk, h)
		delete(s.in, h)
	}
	ev := decodeEvent("datagram", "DGRAM", b, h, in, orig, pan, msg, err, alloc, out)
	if !tailIntact(in, 0xA5) {
		ev["bufsame"] = false
	}
	ev["tailsame"] = tailsame
	// one packet per frame means one object per frame: two entries of the result that are the same object
	// share all state (a call on one is a call on the other)
	distinct := true
	seenPtr := map[uintptr]bool{}
	for _, p := range ps {
		if rv := reflect.ValueOf(p); rv.Kind() == reflect.Ptr && !rv.IsNil() {
			if seenPtr[rv.Pointer()] {
				distinct = false
			}
			seenPtr[rv.Pointer()] = true
		}
	}
	ev["distinct"] = distinct
	pl := make(L, len(parts))
	for i, p := range parts {
		pl[i] = p
	}
	ev["parts"] = pl
	return s.emit(ev)
}

// UnitDecode runs an exported sub-structure decoder on buffer b.
// unitReceiver returns a decoder bound to one fresh value of the exported sub-structure and the
// projection of that value.
func unitReceiver(unit string) (func([]byte) error, func() any, any) {
	switch unit {
	case "hdr":
		x := new(rtcp.Header)
		return x.Unmarshal, func() any { return abs.Hdr(*x) }, x
	case "rb":
		x := new(rtcp.ReceptionReport)
		return x.Unmarshal, func() any { return abs.RB(*x) }, x
	case "chunk":
		x := new(rtcp.SourceDescriptionChunk)
		return x.Unmarshal, func() any { return abs.SDESChunk(*x) }, x
	case "item":
		x := new(rtcp.SourceDescriptionItem)
		return x.Unmarshal, func() any { return abs.SDESItem(*x) }, x
	case "rl":
		x := new(rtcp.RunLengthChunk)
		return x.Unmarshal, func() any { return abs.RunLength(x) }, x
	case "sv":
		x := new(rtcp.StatusVectorChunk)
		return x.Unmarshal, func() any { return abs.StatusVector(x) }, x
	case "delta":
		x := new(rtcp.RecvDelta)
		return x.Unmarshal, func() any { return abs.Delta(x) }, x
	}
	panic("exec: unknown unit " + unit)
}

func (s *State) UnitDecode(unit string, b int) V {
	orig := s.Buf[b]
	in := append([]byte(nil), orig...)
	var err error
	var out any = none
	a0 := s.allocNow()
	var dec func([]byte) error
	var proj func() any
	var obj any
	pan, msg := guardedDecode(func() string { return fmt.Sprintf("udec %s %v", unit, orig) }, func() {
		dec, proj, obj = unitReceiver(unit)
		if err = dec(in); err == nil {
			out = proj()
		}
	})
	alloc := s.allocNow() - a0
	if pan || err != nil {
		out = none
	}
	ev := s.emit(decodeEvent("udec", unit, b, 0, in, orig, pan, msg, err, alloc, out))
	if !pan && err == nil && !s.Quiet && (unit == "sv" || unit == "chunk") {
		// the caller edits the decoded value in place; the same octets decoded afterwards give what they gave before
		edited := false
		walkSlices(reflect.ValueOf(obj), func(sl reflect.Value) {
			for i := 0; i < sl.Len(); i++ {
				scribbleElem(sl.Index(i), false)
				edited = true
			}
		})
		if edited {
			var err2 error
			var out2 any = none
			in2 := append([]byte(nil), orig...)
			pan2, msg2 := guardedDecode(func() string { return fmt.Sprintf("udec %s %v", unit, orig) }, func() {
				dec2, proj2, _ := unitReceiver(unit)
				if err2 = dec2(in2); err2 == nil {
					out2 = proj2()
				}
			})
			if pan2 || err2 != nil {
				out2 = none
			}
			e2 := decodeEvent("udec", unit, b, 0, in2, orig, pan2, msg2, err2, 0, out2)
			e2["again"] = true
			s.emit(e2)
		}
	}
	return ev
}

// UnitDecodeInto decodes buffer b into a sub-structure value that has already decoded prev; the event
// also carries what a fresh value gives for the same octets.
func (s *State) UnitDecodeInto(unit string, prev []byte, b int) V {
	orig := s.Buf[b]
	in := append([]byte(nil), orig...)
	var err, ferr error
	var out, fout any = none, none
	fpan, _ := guardedDecode(func() string { return fmt.Sprintf("udec %s %v", unit, orig) }, func() {
		dec, proj, _ := unitReceiver(unit)
		if ferr = dec(append([]byte(nil), orig...)); ferr == nil {
			fout = proj()
		}
	})
	a0 := s.allocNow()
	pan, msg := guardedDecode(func() string { return fmt.Sprintf("udec %s %v after %v", unit, orig, prev) }, func() {
		dec, proj, _ := unitReceiver(unit)
		_ = dec(append([]byte(nil), prev...))
		if err = dec(in); err == nil {
			out = proj()
		}
	})
	alloc := s.allocNow() - a0
	if pan || err != nil {
		out = none
	}
	if fpan || ferr != nil {
		fout = none
	}
	ev := decodeEvent("udec", unit, b, 0, in, orig, pan, msg, err, alloc, out)
	ev["reuse"] = true
	ev["prev"] = abs.Bytes(prev)
	ev["fresh"] = V{"ok": !fpan && ferr == nil, "panic": fpan, "out": fout}
	return s.emit(ev)
}

// UnitEncode runs an exported sub-structure encoder on value v; the bytes go to buffer h.
func (s *State) UnitEncode(unit string, v any, h int) V {
	var out []byte
	var err error
	pan, msg := guarded(func() string { return fmt.Sprintf("uenc %s %v", unit, v) }, func() {
		switch unit {
		case "hdr":
			out, err = abs.BuildHdr(v).Marshal()
		case "rb":
			out, err = abs.BuildRB(v).Marshal()
		case "chunk":
			out, err = abs.BuildSDESChunk(v).Marshal()
		case "item":
			out, err = abs.BuildSDESItem(v).Marshal()
		case "rl", "sv":
			out, err = abs.BuildChunk(v).Marshal()
		case "delta":
			out, err = abs.BuildDelta(v).Marshal()
		default:
			panic("exec: unknown unit " + unit)
		}
	})
	ok := !pan && err == nil
	ev := V{"op": "uenc", "entry": unit, "h": h, "v": v, "ok": ok, "panic": pan, "out": L{}}
	if ok {
		ev["out"] = abs.Bytes(out)
		s.Buf[h] = append([]byte(nil), out...)
	} else {
		s.Buf[h] = nil
	}
	if pan {
		ev["msg"] = msg
	} else if err != nil {
		ev["msg"] = err.Error()
	}
	return s.emit(ev)
}

func asCompound(x any) (rtcp.CompoundPacket, bool) {
	switch p := x.(type) {
	case []rtcp.Packet:
		return rtcp.CompoundPacket(p), true
	case *rtcp.CompoundPacket:
		return *p, true
	}
	return nil, false
}

// Validate calls CompoundPacket.Validate on a list or compound handle.
func (s *State) Validate(h int) V {
	x := s.Pk[h]
	before := absAny(x)
	c, _ := asCompound(x)
	var err error
	pan, _ := guarded(func() string { return fmt.Sprintf("validate %v", before) }, func() { err = c.Validate() })
	return s.emit(V{"op": "validate", "h": h, "ok": !pan && err == nil, "panic": pan, "post": post(before, x)})
}

// CNAME calls CompoundPacket.CNAME.
func (s *State) CNAME(h int) V {
	x := s.Pk[h]
	before := absAny(x)
	c, _ := asCompound(x)
	var err error
	var name string
	pan, _ := guarded(func() string { return fmt.Sprintf("cname %v", before) }, func() { name, err = c.CNAME() })
	return s.emit(V{"op": "cname", "h": h, "ok": !pan && err == nil, "panic": pan, "out": abs.Bytes([]byte(name)), "post": post(before, x)})
}

type lenner16 interface{ Len() uint16 }
type lennerInt interface{ Len() int }

// LenAcc calls the Len() accessor where the type offers one (TransportLayerCC, CCFeedbackReport).
func (s *State) LenAcc(h int) (V, bool) {
	x := s.Pk[h]
	before := absAny(x)
	n := -1
	var pan bool
	switch p := x.(type) {
	case lenner16:
		pan, _ = guarded(func() string { return fmt.Sprintf("len %v", before) }, func() { n = int(p.Len()) })
	case lennerInt:
		pan, _ = guarded(func() string { return fmt.Sprintf("len %v", before) }, func() { n = p.Len() })
	default:
		return nil, false
	}
	if pan {
		n = -2
	}
	return s.emit(V{"op": "lenacc", "h": h, "out": n, "post": post(before, x)}), true
}

// MarshalTo calls ReceiverEstimatedMaximumBitrate.MarshalTo with a buffer of
// the given size filled with 0xEE; out = the buffer afterwards, n = the count returned.
func (s *State) MarshalTo(h int, size int) (V, bool) {
	p, ok := s.Pk[h].(*rtcp.ReceiverEstimatedMaximumBitrate)
	if !ok {
		return nil, false
	}
	before := absAny(p)
	buf := bytes.Repeat([]byte{0xEE}, size)
	var n int
	var err error
	pan, _ := guarded(func() string { return fmt.Sprintf("marshalto %v", before) }, func() { n, err = p.MarshalTo(buf) })
	return s.emit(V{"op": "marshalto", "h": h, "size": size, "ok": !pan && err == nil, "n": n, "out": abs.Bytes(buf), "panic": pan, "post": post(before, p)}), true
}

// Rebuild overwrites the packet under h in place (same object, new field
// values), as a caller reusing a struct does.
func (s *State) Rebuild(h int, v any) V {
	old, ok := s.Pk[h].(rtcp.Packet)
	buildMu.Lock()
	abs.Spare = [][]byte{}
	nw := BuildAny(v)
	s.spare[h] = abs.Spare
	abs.Spare = nil
	buildMu.Unlock()
	if np, ok2 := nw.(rtcp.Packet); ok && ok2 && reflect.TypeOf(old) == reflect.TypeOf(np) {
		// the way a caller changes a packet it holds: by assigning its exported fields (whatever
		// the library keeps in unexported ones stays)
		dst, src := reflect.ValueOf(old).Elem(), reflect.ValueOf(np).Elem()
		if dst.Kind() == reflect.Struct {
			for i := 0; i < dst.NumField(); i++ {
				if dst.Type().Field(i).IsExported() {
					dst.Field(i).Set(src.Field(i))
				}
			}
		} else {
			dst.Set(src)
		}
	} else {
		s.Pk[h] = nw
	}
	delete(s.in, h)
	return s.emit(V{"op": "build", "h": h, "v": v, "rebuild": true})
}

// Weight is the number of leaves of the projection of the packet under h (a small packet can decode
// to a very large value; formatting cost is quadratic in it, see scripts.go stringOf).
func (s *State) Weight(h int) int {
	var count func(x any) int
	count = func(x any) int {
		switch t := x.(type) {
		case V:
			n := 0
			for _, v := range t {
				n += count(v)
			}
			return n
		case L:
			n := 0
			for _, v := range t {
				n += count(v)
			}
			return n
		}
		return 1
	}
	return count(absAny(s.Pk[h]))
}

// Pick builds, under handle dst, a list made of packets of the list under src (the same objects, in the
// order given by idx; indexes are 0-based and may repeat), as a caller recombining decoded packets does.
func (s *State) Pick(src, dst int, idx []int) V {
	ps, _ := s.Pk[src].([]rtcp.Packet)
	var out []rtcp.Packet
	il := make(L, 0, len(idx))
	for _, i := range idx {
		if i >= 0 && i < len(ps) {
			out = append(out, ps[i])
			il = append(il, i+1)
		}
	}
	s.Pk[dst] = out
	delete(s.spare, dst)
	delete(s.in, dst)
	return s.emit(V{"op": "pick", "h": dst, "src": src, "idx": il})
}

// UnmarshalReuse decodes buffer b with the decoder of kind entry into a receiver that has already
// decoded `first` (a valid packet of that kind). What such a reused receiver then holds is not the
// subject of any property; that the call neither panics nor hangs nor over-allocates is (C01).
func (s *State) UnmarshalReuse(entry string, first []byte, b int) V {
	orig := s.Buf[b]
	in := append([]byte(nil), orig...)
	p := NewOf(entry)
	pre, _ := guardedDecode(func() string { return fmt.Sprintf("reuse-first %s %v", entry, first) }, func() { _ = p.Unmarshal(append([]byte(nil), first...)) })
	var err error
	a0 := s.allocNow()
	pan, msg := guardedDecode(func() string { return fmt.Sprintf("reuse %s %v after %v", entry, orig, first) }, func() { err = p.Unmarshal(in) })
	alloc := s.allocNow() - a0
	ev := V{"op": "unmarshal2", "entry": entry, "b": b, "h": 0, "first": abs.Bytes(first), "ok": !pan && err == nil, "panic": pan || pre,
		"slow": false, "alloc": int(alloc), "bufsame": bytes.Equal(in, orig)}
	if pan {
		ev["msg"] = msg
	}
	return s.emit(ev)
}

// Scribble does to the packet under h what a caller is entitled to do with a value it owns: first it writes
// into the spare capacity behind every slice the packet holds (what an append would do); the packet's
// projection must not change, or two of its parts share memory. Then it changes every element of every
// slice in place; the new value is recorded as a build event, and whatever the library decodes afterwards
// must not be affected (a decoded packet that aliases a table of the package shows here).
func (s *State) Scribble(h int) V {
	x, ok := s.Pk[h]
	if !ok {
		return nil
	}
	before := absAny(x)
	walkSlices(reflect.ValueOf(x), func(sl reflect.Value) {
		full := sl.Slice3(0, sl.Cap(), sl.Cap())
		for i := sl.Len(); i < full.Len(); i++ {
			scribbleElem(full.Index(i), true)
		}
	})
	ev := s.emit(V{"op": "scribble", "h": h, "post": post(before, x)})
	walkSlices(reflect.ValueOf(x), func(sl reflect.Value) {
		for i := 0; i < sl.Len(); i++ {
			scribbleElem(sl.Index(i), false)
		}
	})
	delete(s.spare, h)
	delete(s.in, h)
	s.emit(V{"op": "build", "h": h, "v": absAny(x), "rebuild": true, "scribbled": true})
	return ev
}

// walkSlices calls f on every non-nil slice reachable from v through pointers, interfaces, structs and slices
// (exported fields only), innermost first.
func walkSlices(v reflect.Value, f func(reflect.Value)) {
	switch v.Kind() {
	case reflect.Ptr, reflect.Interface:
		if !v.IsNil() {
			walkSlices(v.Elem(), f)
		}
	case reflect.Struct:
		for i := 0; i < v.NumField(); i++ {
			if v.Type().Field(i).IsExported() {
				walkSlices(v.Field(i), f)
			}
		}
	case reflect.Slice:
		if v.IsNil() {
			return
		}
		for i := 0; i < v.Len(); i++ {
			walkSlices(v.Index(i), f)
		}
		if v.CanSet() || v.Len() > 0 || v.Cap() > 0 {
			f(v)
		}
	}
}

// scribbleElem changes one element: spare capacity gets a fixed pattern, live elements get their low bit
// flipped (numbers) - pointers, interfaces, structs and strings are left as they are.
func scribbleElem(e reflect.Value, spare bool) {
	if !e.CanSet() {
		return
	}
	switch e.Kind() {
	case reflect.Uint8, reflect.Uint16, reflect.Uint32, reflect.Uint64:
		if spare {
			e.SetUint(0xC7 & (1<<uint(e.Type().Bits()) - 1))
		} else {
			e.SetUint(e.Uint() ^ 1)
		}
	case reflect.Bool:
		if spare {
			e.SetBool(true)
		}
	case reflect.Struct:
		// spare elements of a slice of structs: every numeric field (live struct elements are left alone:
		// their own slices were visited already)
		if spare {
			for i := 0; i < e.NumField(); i++ {
				if e.Type().Field(i).IsExported() {
					scribbleElem(e.Field(i), true)
				}
			}
		}
	}
}

// Constants records the values of the exported named constants of the package (packet types, feedback formats,
// SDES item types, XR block types, ECN code points, TWCC symbols): the names are part of the interface, and the
// numbers behind them are assigned by the RFCs.
func (s *State) Constants() V {
	out := V{
		"TypeSenderReport": int(rtcp.TypeSenderReport), "TypeReceiverReport": int(rtcp.TypeReceiverReport),
		"TypeSourceDescription": int(rtcp.TypeSourceDescription), "TypeGoodbye": int(rtcp.TypeGoodbye),
		"TypeApplicationDefined": int(rtcp.TypeApplicationDefined), "TypeTransportSpecificFeedback": int(rtcp.TypeTransportSpecificFeedback),
		"TypePayloadSpecificFeedback": int(rtcp.TypePayloadSpecificFeedback), "TypeExtendedReport": int(rtcp.TypeExtendedReport),
		"FormatSLI": int(rtcp.FormatSLI), "FormatPLI": int(rtcp.FormatPLI), "FormatFIR": int(rtcp.FormatFIR), "FormatTLN": int(rtcp.FormatTLN),
		"FormatRRR": int(rtcp.FormatRRR), "FormatCCFB": int(rtcp.FormatCCFB), "FormatREMB": int(rtcp.FormatREMB), "FormatTCC": int(rtcp.FormatTCC),
		"ECNNonECT": int(rtcp.ECNNonECT), "ECNECT1": int(rtcp.ECNECT1), "ECNECT0": int(rtcp.ECNECT0), "ECNCE": int(rtcp.ECNCE),
		"SDESEnd": int(rtcp.SDESEnd), "SDESCNAME": int(rtcp.SDESCNAME), "SDESName": int(rtcp.SDESName), "SDESEmail": int(rtcp.SDESEmail),
		"SDESPhone": int(rtcp.SDESPhone), "SDESLocation": int(rtcp.SDESLocation), "SDESTool": int(rtcp.SDESTool), "SDESNote": int(rtcp.SDESNote),
		"SDESPrivate":            int(rtcp.SDESPrivate),
		"LossRLEReportBlockType": int(rtcp.LossRLEReportBlockType), "DuplicateRLEReportBlockType": int(rtcp.DuplicateRLEReportBlockType),
		"PacketReceiptTimesReportBlockType": int(rtcp.PacketReceiptTimesReportBlockType), "ReceiverReferenceTimeReportBlockType": int(rtcp.ReceiverReferenceTimeReportBlockType),
		"DLRRReportBlockType": int(rtcp.DLRRReportBlockType), "StatisticsSummaryReportBlockType": int(rtcp.StatisticsSummaryReportBlockType),
		"VoIPMetricsReportBlockType": int(rtcp.VoIPMetricsReportBlockType),
		"ToHMissing":                 int(rtcp.ToHMissing), "ToHIPv4": int(rtcp.ToHIPv4), "ToHIPv6": int(rtcp.ToHIPv6),
		"TypeTCCRunLengthChunk": int(rtcp.TypeTCCRunLengthChunk), "TypeTCCStatusVectorChunk": int(rtcp.TypeTCCStatusVectorChunk),
		"TypeTCCPacketNotReceived": int(rtcp.TypeTCCPacketNotReceived), "TypeTCCPacketReceivedSmallDelta": int(rtcp.TypeTCCPacketReceivedSmallDelta),
		"TypeTCCPacketReceivedLargeDelta": int(rtcp.TypeTCCPacketReceivedLargeDelta), "TypeTCCPacketReceivedWithoutDelta": int(rtcp.TypeTCCPacketReceivedWithoutDelta),
		"TypeTCCSymbolSizeOneBit": int(rtcp.TypeTCCSymbolSizeOneBit), "TypeTCCSymbolSizeTwoBit": int(rtcp.TypeTCCSymbolSizeTwoBit),
	}
	return s.emit(V{"op": "consts", "h": 0, "out": out})
}
