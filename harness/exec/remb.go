package exec

import (
	"fmt"

	"github.com/pion/rtcp"

	"verif/harness/abs"
)

// RembDecode builds the 20-octet REMB packet carrying (exp, mantissa) for
// each mantissa and decodes it with the real library; out[i] is the decoded
// bitrate as (s, e, f), or {"k":"NONE"} if the library refused it.
func (s *State) RembDecode(exp int, ms []int) V {
	out := make(L, len(ms))
	pan, _ := guarded(func() string { return fmt.Sprintf("rembdec %d", exp) }, func() {
		for i, m := range ms {
			b := []byte{143, 206, 0, 4, 1, 2, 3, 4, 0, 0, 0, 0, 'R', 'E', 'M', 'B', 0,
				byte(exp<<2 | m>>16), byte(m >> 8), byte(m)}
			var p rtcp.ReceiverEstimatedMaximumBitrate
			if err := p.Unmarshal(b); err != nil {
				out[i] = none
			} else {
				out[i] = abs.Float(p.Bitrate)
			}
		}
	})
	if pan {
		out = L{}
	}
	msl := make(L, len(ms))
	for i, m := range ms {
		msl[i] = m
	}
	return s.emit(V{"op": "rembdec", "h": 0, "exp": exp, "args": msl, "out": out, "panic": pan})
}

// RembEncode marshals a REMB packet for each bitrate; out[i] is
// {ok, ex, m}: the exponent and mantissa found in octets 17..19.
func (s *State) RembEncode(brs []any) V {
	out := make(L, len(brs))
	pan, _ := guarded(func() string { return "rembenc" }, func() {
		for i, br := range brs {
			p := rtcp.ReceiverEstimatedMaximumBitrate{SenderSSRC: 1, Bitrate: abs.BuildFloat(br)}
			b, err := p.Marshal()
			if err != nil || len(b) < 20 {
				out[i] = V{"ok": false, "ex": 0, "m": 0}
			} else {
				out[i] = V{"ok": true, "ex": int(b[17] >> 2), "m": int(b[17]&3)<<16 | int(b[18])<<8 | int(b[19])}
			}
		}
	})
	if pan {
		out = L{}
	}
	return s.emit(V{"op": "rembenc", "h": 0, "args": L(brs), "out": out, "panic": pan})
}
