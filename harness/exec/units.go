package exec

import (
	"bytes"
	"encoding/binary"
	"fmt"
	"runtime"
	"strings"
	"sync"

	"github.com/pion/rtcp"

	"verif/harness/abs"
)

// UnitTable decodes 256 consecutive wire words with the public codec of a
// fixed-width unit and re-encodes each decoded value (C16).
func (s *State) UnitTable(unit string, start int) V {
	out := make(L, 256)
	pan, msg := guarded(func() string { return fmt.Sprintf("utable %s %d", unit, start) }, func() {
		for i := 0; i < 256; i++ {
			w := uint16(start + i)
			wb := []byte{byte(w >> 8), byte(w)}
			var v any = none
			var back []byte
			var err error
			switch unit {
			case "rl":
				var c rtcp.RunLengthChunk
				if err = c.Unmarshal(wb); err == nil {
					v = abs.RunLength(&c)
					back, err = c.Marshal()
				}
			case "sv":
				var c rtcp.StatusVectorChunk
				if err = c.Unmarshal(wb); err == nil {
					v = abs.StatusVector(&c)
					back, err = c.Marshal()
				}
			case "delta1":
				var d rtcp.RecvDelta
				if err = d.Unmarshal([]byte{byte(w)}); err == nil {
					v = abs.Delta(&d)
					back, err = d.Marshal()
				}
			case "delta2":
				var d rtcp.RecvDelta
				if err = d.Unmarshal(wb); err == nil {
					v = abs.Delta(&d)
					back, err = d.Marshal()
				}
			case "hdrlen":
				var h rtcp.Header
				if err = h.Unmarshal([]byte{129, 200, wb[0], wb[1]}); err == nil {
					v = abs.Hdr(h)
					back, err = h.Marshal()
				}
			case "hdr01":
				var h rtcp.Header
				if err = h.Unmarshal([]byte{128 + byte(w>>8)%64, byte(w), 1, 2}); err == nil {
					v = abs.Hdr(h)
					back, err = h.Marshal()
				}
			case "mb":
				// a CCFB packet with one report block of two metric blocks: the word under
				// test and a fixed one (the library writes num_reports as n-1 = 1)
				pkt := []byte{0x8b, 205, 0, 5, 1, 2, 3, 4, 5, 6, 7, 8, 0, 9, 0, 1, wb[0], wb[1], 0x80, 0x01, 9, 9, 9, 9}
				var p rtcp.CCFeedbackReport
				if err = p.Unmarshal(pkt); err == nil {
					if len(p.ReportBlocks) != 1 || len(p.ReportBlocks[0].MetricBlocks) != 2 {
						err = fmt.Errorf("unexpected shape")
					} else {
						m := p.ReportBlocks[0].MetricBlocks[0]
						v = V{"r": m.Received, "ecn": int(m.ECN), "ato": int(m.ArrivalTimeOffset)}
						var b2 []byte
						if b2, err = p.Marshal(); err == nil {
							back = b2[16:18]
						}
					}
				}
			default:
				panic("utable: unknown unit " + unit)
			}
			out[i] = V{"ok": err == nil, "v": v, "back": abs.Bytes(back)}
		}
	})
	ev := V{"op": "utable", "h": 0, "entry": unit, "start": start, "out": out, "panic": pan}
	if pan {
		ev["out"] = L{}
		ev["msg"] = msg
	}
	return s.emit(ev)
}

// RleTable evaluates the XR RLE chunk accessors on 256 consecutive chunks.
func (s *State) RleTable(start int) V {
	out := make(L, 256)
	pan, msg := guarded(func() string { return fmt.Sprintf("rletable %d", start) }, func() {
		for i := 0; i < 256; i++ {
			c := rtcp.Chunk(start + i)
			rt, err := c.RunType()
			_ = c.String()
			out[i] = V{"t": int(c.Type()), "rtok": err == nil, "rt": int(rt), "val": int(c.Value())}
		}
	})
	ev := V{"op": "rletable", "h": 0, "start": start, "out": out, "panic": pan}
	if pan {
		ev["out"] = L{}
		ev["msg"] = msg
	}
	return s.emit(ev)
}

// parallel runs f(lo, hi) over [0, n) in chunks on all cores and collects up to 5 failures.
func parallel(n uint64, f func(lo, hi uint64, fail func(string))) []string {
	var mu sync.Mutex
	var fails []string
	fail := func(s string) {
		mu.Lock()
		if len(fails) < 5 {
			fails = append(fails, s)
		}
		mu.Unlock()
	}
	w := uint64(runtime.NumCPU())
	var wg sync.WaitGroup
	for k := uint64(0); k < w; k++ {
		lo, hi := n/w*k, n/w*(k+1)
		if k == w-1 {
			hi = n
		}
		wg.Add(1)
		go func() { defer wg.Done(); f(lo, hi, fail) }()
	}
	wg.Wait()
	return fails
}

// Sweep runs an exhaustive (or strided) identity sweep over a large finite
// domain in Go; it checks only relations the specification states and TLC has
// checked on the specification (DESIGN.md 3.6). stride 1 = exhaustive.
func (s *State) Sweep(name string, stride uint64) V {
	var n uint64
	var fails []string
	// a sweep runs for minutes by design: it is not timed by the watchdog
	// "<name>-fields": instead of striding over the whole domain, every value of each field of the unit
	// with the other fields at a few presets (the quick tier's exhaustive-per-field complement of a stride)
	base, perField := strings.CutSuffix(name, "-fields")
	pan, msg := unguarded(func() {
		switch base {
		case "loss24": // every 24-bit cumulative-lost value: marshal places it big-endian in octets 5..7, unmarshal returns it
			n = 1 << 24
			fails = parallel(n, func(lo, hi uint64, fail func(string)) {
				for x := lo; x < hi; x += stride {
					r := rtcp.ReceptionReport{SSRC: 1, TotalLost: uint32(x)}
					b, err := r.Marshal()
					if err != nil || b[5] != byte(x>>16) || b[6] != byte(x>>8) || b[7] != byte(x) {
						fail(fmt.Sprintf("marshal %d", x))
						continue
					}
					var q rtcp.ReceptionReport
					if err := q.Unmarshal(b); err != nil || q.TotalLost != uint32(x) {
						fail(fmt.Sprintf("unmarshal %d", x))
					}
				}
			})
		case "header32": // every 32-bit header word: version 2 decodes and re-encodes to itself, others are refused
			n = 1 << 32
			body := func(x uint64, fail func(string)) {
				var b [4]byte
				binary.BigEndian.PutUint32(b[:], uint32(x))
				var h rtcp.Header
				err := h.Unmarshal(b[:])
				if b[0]>>6 != 2 {
					if err == nil {
						fail(fmt.Sprintf("accepted %08x", x))
					}
					return
				}
				if err != nil || h.Padding != (b[0]&0x20 != 0) || h.Count != b[0]&31 || uint8(h.Type) != b[1] || h.Length != uint16(x) {
					fail(fmt.Sprintf("decode %08x", x))
					return
				}
				o, err := h.Marshal()
				if err != nil || binary.BigEndian.Uint32(o) != uint32(x) {
					fail(fmt.Sprintf("encode %08x", x))
				}
			}
			if perField {
				xs := fieldValues([]int{2, 1, 5, 8, 16}, []uint64{0, 0xFFFFFFFF, 0x9A5C3C69})
				n = uint64(len(xs))
				fails = parallel(n, func(lo, hi uint64, fail func(string)) {
					for i := lo; i < hi; i++ {
						body(xs[i], fail)
					}
				})
			} else {
				fails = parallel(n, func(lo, hi uint64, fail func(string)) {
					for x := lo; x < hi; x += stride {
						body(x, fail)
					}
				})
			}
		case "nack32": // every (PID, BLP): single-entry NACK encodes it big-endian at offset 12 and decodes it back
			n = 1 << 32
			body := func(x uint64, fail func(string)) {
				p := rtcp.TransportLayerNack{SenderSSRC: 1, MediaSSRC: 2, Nacks: []rtcp.NackPair{{PacketID: uint16(x >> 16), LostPackets: rtcp.PacketBitmap(x)}}}
				b, err := p.Marshal()
				if err != nil || len(b) != 16 || binary.BigEndian.Uint32(b[12:]) != uint32(x) {
					fail(fmt.Sprintf("marshal %08x", x))
					return
				}
				var q rtcp.TransportLayerNack
				if err := q.Unmarshal(b); err != nil || len(q.Nacks) != 1 || q.Nacks[0] != p.Nacks[0] {
					fail(fmt.Sprintf("unmarshal %08x", x))
				}
			}
			if perField {
				xs := fieldValues([]int{16, 16}, []uint64{0, 0xFFFFFFFF, 0x5A3CA5C3})
				n = uint64(len(xs))
				fails = parallel(n, func(lo, hi uint64, fail func(string)) {
					for i := lo; i < hi; i++ {
						body(xs[i], fail)
					}
				})
			} else {
				fails = parallel(n, func(lo, hi uint64, fail func(string)) {
					for x := lo; x < hi; x += stride {
						body(x, fail)
					}
				})
			}
		case "sli32": // every SLI word: First(13) Number(13) Picture(6)
			n = 1 << 32
			body := func(x uint64, fail func(string)) {
				e := rtcp.SLIEntry{First: uint16(x >> 19), Number: uint16(x >> 6 & 0x1FFF), Picture: uint8(x & 0x3F)}
				p := rtcp.SliceLossIndication{SenderSSRC: 1, MediaSSRC: 2, SLI: []rtcp.SLIEntry{e}}
				b, err := p.Marshal()
				if err != nil || len(b) != 16 || binary.BigEndian.Uint32(b[12:]) != uint32(x) {
					fail(fmt.Sprintf("marshal %08x", x))
					return
				}
				var q rtcp.SliceLossIndication
				if err := q.Unmarshal(b); err != nil || len(q.SLI) != 1 || q.SLI[0] != e {
					fail(fmt.Sprintf("unmarshal %08x", x))
				}
			}
			if perField {
				xs := fieldValues([]int{13, 13, 6}, []uint64{0, 0xFFFFFFFF, 0x5A3CA5C3})
				n = uint64(len(xs))
				fails = parallel(n, func(lo, hi uint64, fail func(string)) {
					for i := lo; i < hi; i++ {
						body(xs[i], fail)
					}
				})
			} else {
				fails = parallel(n, func(lo, hi uint64, fail func(string)) {
					for x := lo; x < hi; x += stride {
						body(x, fail)
					}
				})
			}
		case "fir40": // FIR entries SSRC(32) seq(8): strided over the 2^40 domain
			n = 1 << 40
			body := func(x uint64, fail func(string)) {
				e := rtcp.FIREntry{SSRC: uint32(x >> 8), SequenceNumber: uint8(x)}
				p := rtcp.FullIntraRequest{SenderSSRC: 1, MediaSSRC: 2, FIR: []rtcp.FIREntry{e}}
				b, err := p.Marshal()
				if err != nil || len(b) != 20 || binary.BigEndian.Uint32(b[12:]) != e.SSRC || b[16] != e.SequenceNumber || b[17]|b[18]|b[19] != 0 {
					fail(fmt.Sprintf("marshal %010x", x))
					return
				}
				var q rtcp.FullIntraRequest
				if err := q.Unmarshal(b); err != nil || len(q.FIR) != 1 || q.FIR[0] != e {
					fail(fmt.Sprintf("unmarshal %010x", x))
				}
			}
			if perField {
				xs := fieldValues([]int{16, 16, 8}, []uint64{0, 0xFFFFFFFFFF, 0x5A3CA5C369})
				n = uint64(len(xs))
				fails = parallel(n, func(lo, hi uint64, fail func(string)) {
					for i := lo; i < hi; i++ {
						body(xs[i], fail)
					}
				})
			} else {
				fails = parallel(n, func(lo, hi uint64, fail func(string)) {
					for x := lo; x < hi; x += stride {
						body(x, fail)
					}
				})
			}
		case "headerplausible": // P x count x type x every length up to 255 words: the headers real packets have
			n = 2 * 32 * 256 * 256
			fails = parallel(n, func(lo, hi uint64, fail func(string)) {
				var b [4]byte
				for x := lo; x < hi; x++ {
					b[0] = 0x80 | byte(x>>21&1)<<5 | byte(x>>16&31)
					b[1] = byte(x >> 8)
					b[2], b[3] = 0, byte(x)
					var h rtcp.Header
					if err := h.Unmarshal(b[:]); err != nil || h.Padding != (b[0]&0x20 != 0) || h.Count != b[0]&31 || uint8(h.Type) != b[1] || h.Length != uint16(b[3]) {
						fail(fmt.Sprintf("decode %x", b))
						continue
					}
					if o, err := h.Marshal(); err != nil || !bytes.Equal(o, b[:]) {
						fail(fmt.Sprintf("encode %x", b))
					}
				}
			})
		case "nackequiv32": // PacketList(id, bm) = PacketList(0, bm) + id (mod 2^16), all 2^32 pairs
			n = 1 << 32
			fails = parallel(n, func(lo, hi uint64, fail func(string)) {
				for x := lo; x < hi; x += stride {
					id, bm := uint16(x>>16), uint16(x)
					a := (&rtcp.NackPair{PacketID: id, LostPackets: rtcp.PacketBitmap(bm)}).PacketList()
					z := (&rtcp.NackPair{PacketID: 0, LostPackets: rtcp.PacketBitmap(bm)}).PacketList()
					ok := len(a) == len(z)
					for i := 0; ok && i < len(a); i++ {
						ok = a[i] == z[i]+id
					}
					if !ok {
						fail(fmt.Sprintf("%08x", x))
					}
				}
			})
		case "rembencint", "rembenctop18", "rembencscale", "rembencsat":
			// encoder lemmas of spec/RembAlg.tla (EncLemmas) over all floats of a range; a float is (e, f)
			enc := func(bits uint32) (uint32, bool) {
				p := rtcp.ReceiverEstimatedMaximumBitrate{Bitrate: abs.FloatFromBits(bits)}
				b, err := p.Marshal()
				if err != nil {
					return 0, false
				}
				return uint32(b[17])<<16 | uint32(b[18])<<8 | uint32(b[19]), true
			}
			var elo, ehi uint32
			switch name {
			case "rembencint":
				elo, ehi = 127, 144 // 1 <= x < 2^18: only the integer part matters
			case "rembenctop18":
				elo, ehi = 150, 150 // only the leading 18 bits matter
			case "rembencscale":
				elo, ehi = 145, 206 // doubling adds one to the exponent
			case "rembencsat":
				elo, ehi = 208, 254 // saturation
			}
			n = uint64(ehi-elo+1) << 23
			fails = parallel(n, func(lo, hi uint64, fail func(string)) {
				for x := lo; x < hi; x += stride {
					e, f := elo+uint32(x>>23), uint32(x&0x7FFFFF)
					a, ok := enc(e<<23 | f)
					var z uint32
					var ok2 bool
					switch name {
					case "rembencint":
						z, ok2 = enc(e<<23 | f&^(1<<(150-e)-1))
					case "rembenctop18":
						z, ok2 = enc(e<<23 | f&^63)
					case "rembencscale":
						z, ok2 = enc((e+1)<<23 | f)
						z -= 1 << 18 // one less in the 6-bit exponent field
					case "rembencsat":
						z, ok2 = 63<<18|0x3FFFF, true
					}
					if !ok || !ok2 || a != z {
						fail(fmt.Sprintf("e=%d f=%d", e, f))
					}
				}
			})
		case "rembscale24": // decode(e, m) = decode(0, m) with e added to the float exponent, all 2^24 pairs
			n = 1 << 24
			fails = parallel(n, func(lo, hi uint64, fail func(string)) {
				dec := func(e, m uint32) (uint32, bool) {
					b := []byte{143, 206, 0, 4, 1, 2, 3, 4, 0, 0, 0, 0, 'R', 'E', 'M', 'B', 0, byte(e<<2 | m>>16), byte(m >> 8), byte(m)}
					var p rtcp.ReceiverEstimatedMaximumBitrate
					if err := p.Unmarshal(b); err != nil {
						return 0, false
					}
					return abs.FloatBits(p.Bitrate), true
				}
				for x := lo; x < hi; x += stride {
					e, m := uint32(x>>18), uint32(x&0x3FFFF)
					a, ok1 := dec(e, m)
					z, ok2 := dec(0, m)
					if !ok1 || !ok2 || a != z+e<<23 {
						fail(fmt.Sprintf("e=%d m=%d", e, m))
					}
				}
			})
		default:
			panic("sweep: unknown " + name)
		}
	})
	fl := make(L, len(fails))
	for i, f := range fails {
		fl[i] = f
	}
	ev := V{"op": "sweep", "h": 0, "entry": name, "stride": int(stride), "checked_thousands": int((n + stride - 1) / stride / 1000), "failures": fl, "panic": pan}
	if pan {
		ev["msg"] = msg
	}
	return s.emit(ev)
}

// fieldValues enumerates, for a word made of fields of the given widths (most significant first), every
// value of each field combined with each preset for the rest of the word.
func fieldValues(widths []int, presets []uint64) []uint64 {
	total := 0
	for _, w := range widths {
		total += w
	}
	var out []uint64
	shift := total
	for _, w := range widths {
		shift -= w
		mask := (uint64(1)<<uint(w) - 1) << uint(shift)
		for _, p := range presets {
			for v := uint64(0); v < 1<<uint(w); v++ {
				out = append(out, (p&^mask|v<<uint(shift))&(uint64(1)<<uint(total)-1))
			}
		}
	}
	return out
}
