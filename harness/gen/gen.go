// Package gen produces abstract values (spec-side records) for the drivers:
// well-formed values of every packet kind, biased towards wire limits, and
// values just outside a limit. It only produces inputs; it judges nothing.
package gen

import (
	"math/rand"

	"verif/harness/abs"
)

type V = abs.V
type L = abs.L

type G struct{ R *rand.Rand }

func New(seed int64) *G { return &G{R: rand.New(rand.NewSource(seed))} }

func (g *G) Pick(xs ...int) int { return xs[g.R.Intn(len(xs))] }
func (g *G) Bool() bool         { return g.R.Intn(2) == 0 }
func (g *G) Int(lo, hi int) int { return lo + g.R.Intn(hi-lo+1) }

func (g *G) U32() L {
	switch g.R.Intn(8) {
	case 0:
		return L{0, 0, 0, 0}
	case 1:
		return L{255, 255, 255, 255}
	case 2:
		return L{1, 2, 3, 4}
	case 3:
		return L{128, 0, 0, g.R.Intn(256)}
	case 4:
		return L{g.Pick(127, 0, 255), 255, 255, g.Pick(255, 254)}
	}
	return L{g.R.Intn(256), g.R.Intn(256), g.R.Intn(256), g.R.Intn(256)}
}

func (g *G) U64() L { return append(g.U32(), g.U32()...) }

func (g *G) U16() int {
	switch g.R.Intn(5) {
	case 0:
		return g.Pick(0, 1, 2, 15, 16, 17, 255, 256, 32767, 32768, 65534, 65535)
	case 1:
		return 0x0102
	}
	return g.R.Intn(65536)
}

func (g *G) U8() int {
	if g.R.Intn(3) == 0 {
		return g.Pick(0, 1, 127, 127, 128, 254, 255)
	}
	return g.R.Intn(256)
}

func (g *G) Bytes(n int) L {
	out := make(L, n)
	for i := range out {
		out[i] = g.R.Intn(256)
	}
	return out
}

// Dict is the token dictionary (package dict), set once by the program that drives the generators.
var Dict [][]byte

// Text is the content of a free-form octet field (SDES item text, BYE reason, APP data, unknown XR
// block): mostly random octets of length n, sometimes built from dictionary tokens, sometimes
// "self-describing" (the first octet is the length of the text or of what follows it).
func (g *G) Text(n int) L {
	if len(Dict) == 0 || g.R.Intn(4) > 0 {
		return g.Bytes(n)
	}
	tok := func() L {
		t := Dict[g.R.Intn(len(Dict))]
		out := make(L, len(t))
		for i, b := range t {
			out[i] = int(b)
		}
		return out
	}
	var out L
	switch g.R.Intn(7) {
	case 0:
		out = tok()
	case 1:
		out = append(tok(), g.Bytes(g.Int(1, 6))...)
	case 2:
		out = append(g.Bytes(g.Int(1, 6)), tok()...)
	case 3:
		out = append(tok(), tok()...)
	case 4:
		out = append(append(tok(), g.Bytes(g.Int(0, 3))...), tok()...)
	default:
		// self-describing
		m := g.Int(1, 9)
		out = g.Bytes(m)
		out[0] = g.Pick(m, m-1, m+1, m-2, 0)
		if out[0].(int) < 0 {
			out[0] = 0
		}
	}
	if len(out) > 255 {
		out = out[:255]
	}
	return out
}

// Len picks a list length: mostly small, sometimes at the maximum.
func (g *G) Len(max int) int {
	switch g.R.Intn(10) {
	case 0:
		return max
	case 1:
		if max > 0 {
			return max - 1
		}
	case 2:
		return 0
	case 3:
		// the neighbourhood of a power of two inside the range (fast paths for "short" lists end there)
		p := 1 << uint(g.Int(3, 10))
		if n := p + g.Int(-1, 1); n <= max {
			return n
		}
	}
	if max > 6 {
		max = 6
	}
	return g.R.Intn(max + 1)
}

func (g *G) RB() V {
	lost := g.U32()
	lost[0] = 0
	return V{"ssrc": g.U32(), "fl": g.U8(), "lost": lost, "seq": g.U32(), "jit": g.U32(), "lsr": g.U32(), "dlsr": g.U32()}
}

func (g *G) RBs(n int) L {
	out := make(L, n)
	for i := range out {
		out[i] = g.RB()
	}
	return out
}

func (g *G) SR() V {
	return V{"k": "SR", "ssrc": g.U32(), "ntp": g.U64(), "rtp": g.U32(), "pc": g.U32(), "oc": g.U32(),
		"reports": g.RBs(g.Len(31)), "ext": g.Bytes(4 * g.Pick(0, 0, 0, 1, 2, 5))}
}

func (g *G) RR() V {
	return V{"k": "RR", "ssrc": g.U32(), "reports": g.RBs(g.Len(31)), "ext": g.Bytes(g.Pick(0, 0, 0, 1, 2, 3, 4, 5, 7, 8, 21))}
}

func (g *G) Item() V {
	n := g.Pick(0, 1, 2, 3, 4, 5, 6, 7, 8, 9, 254, 255)
	if g.R.Intn(3) > 0 {
		n = g.R.Intn(12)
	}
	t := g.Pick(1, 1, 1, 2, 3, 4, 5, 6, 7, 8, 9, 255)
	return V{"t": t, "text": g.Text(n)}
}

func (g *G) Chunk() V {
	n := g.Pick(0, 1, 1, 1, 2, 3)
	items := make(L, n)
	for i := range items {
		items[i] = g.Item()
	}
	return V{"src": g.U32(), "items": items}
}

func (g *G) SDES() V {
	n := g.Len(31)
	cs := make(L, n)
	for i := range cs {
		cs[i] = g.Chunk()
	}
	return V{"k": "SDES", "chunks": cs}
}

func (g *G) U32s(n int) L {
	out := make(L, n)
	for i := range out {
		out[i] = g.U32()
	}
	return out
}

func (g *G) BYE() V {
	n := g.Pick(0, 0, 1, 2, 3, 4, 5, 6, 7, 254, 255)
	return V{"k": "BYE", "srcs": g.U32s(g.Len(31)), "reason": g.Text(n)}
}

func (g *G) APP() V {
	n := g.Pick(0, 1, 2, 3, 4, 5, 6, 7, 8, 9, 100)
	return V{"k": "APP", "st": g.Pick(0, 1, 15, 30, 31, g.R.Intn(32)), "ssrc": g.U32(), "name": g.Name4(), "data": g.Text(n)}
}

// Name4 is a 4-octet identifier: random, or a 4-octet dictionary token.
func (g *G) Name4() L {
	if g.R.Intn(3) == 0 {
		var four [][]byte
		for _, t := range Dict {
			if len(t) == 4 {
				four = append(four, t)
			}
		}
		if len(four) > 0 {
			t := four[g.R.Intn(len(four))]
			return L{int(t[0]), int(t[1]), int(t[2]), int(t[3])}
		}
	}
	return g.Bytes(4)
}

func (g *G) NACK() V {
	n := g.Pick(1, 1, 2, 3, 4, 252, 253, 1+g.Len(300))
	ns := make(L, n)
	for i := range ns {
		ns[i] = V{"pid": g.U16(), "blp": g.U16()}
		if i > 0 && g.R.Intn(3) == 0 {
			// inside the window of the pair before, named by its bitmap or not, with or without a bitmap of its own
			prev := ns[i-1].(V)
			d := g.Int(1, 16)
			if g.Bool() {
				prev["blp"] = prev["blp"].(int) | 1<<uint(d-1)
			}
			ns[i] = V{"pid": (prev["pid"].(int) + d) % 65536, "blp": g.Pick(0, 0, g.U16())}
		}
	}
	return V{"k": "NACK", "sender": g.U32(), "media": g.U32(), "nacks": ns}
}

func (g *G) RRR() V { return V{"k": "RRR", "sender": g.U32(), "media": g.U32()} }
func (g *G) PLI() V { return V{"k": "PLI", "sender": g.U32(), "media": g.U32()} }

func (g *G) SLI() V {
	n := g.Pick(1, 1, 2, 3, 252, 253, 1+g.Len(300))
	es := make(L, n)
	for i := range es {
		es[i] = V{"first": g.Pick(0, 1, 4095, 4096, 8191, g.R.Intn(8192)), "number": g.Pick(0, 1, 1023, 1024, 8191, g.R.Intn(8192)), "pic": g.Pick(0, 1, 63, g.R.Intn(64))}
	}
	return V{"k": "SLI", "sender": g.U32(), "media": g.U32(), "sli": es}
}

func (g *G) FIR() V {
	n := g.Pick(1, 1, 2, 3, 30, 31, 32)
	es := make(L, n)
	for i := range es {
		es[i] = V{"ssrc": g.U32(), "seq": g.U8()}
	}
	return V{"k": "FIR", "sender": g.U32(), "media": g.U32(), "fir": es}
}

// Float is a non-negative finite float32 as (s, e, f), biased to boundaries.
func (g *G) Float() V {
	e := g.Pick(0, 1, 126, 127, 128, 143, 144, 145, 150, 151, 206, 207, 208, 253, 254, g.R.Intn(255))
	f := g.Pick(0, 1, 0x7FFFFF, 0x400000, 0x7FFFC0, 0x7FFFE0, 0x00003F, 0x000040, g.R.Intn(1<<23))
	return V{"s": 0, "e": e, "f": f}
}

func (g *G) REMB() V {
	return V{"k": "REMB", "sender": g.U32(), "br": g.Float(), "ssrcs": g.U32s(g.Pick(0, 1, 2, 3, 254, 255, g.R.Intn(6)))}
}

// TWCC builds a well-formed feedback from a random status sequence and a
// random valid chunking of it.
func (g *G) TWCC() V {
	if g.R.Intn(12) == 0 { // status counts near 2^16: mostly not received, a few received at the end
		n := g.Pick(57340, 57345, 60000, 65528, 65534, 65535)
		st := make([]int, n)
		for i := n - g.Int(1, 9); i < n; i++ {
			st[i] = g.Pick(1, 2)
		}
		return g.TWCCFrom(st, 1)
	}
	n := g.Pick(0, 1, 2, 3, 6, 7, 8, 13, 14, 15, 20, 21, 28, g.R.Intn(40))
	st := make([]int, n)
	mode := g.R.Intn(4)
	for i := range st {
		switch mode {
		case 0:
			st[i] = g.R.Intn(3)
		case 1:
			st[i] = g.R.Intn(2)
		case 2:
			if i == 0 || g.R.Intn(6) == 0 {
				st[i] = g.R.Intn(3)
			} else {
				st[i] = st[i-1]
			}
		default:
			st[i] = g.R.Intn(4)
		}
	}
	return g.TWCCFrom(st, 0)
}

// TWCCFrom encodes the status sequence st with a random valid chunking
// (style 0) or a forced style: 1 run-length where possible, 2 two-bit
// vectors, 3 one-bit vectors where possible.
func (g *G) TWCCFrom(st []int, style int) V {
	n := len(st)
	var chunks L
	i := 0
	for i < n {
		run := 1
		for i+run < n && st[i+run] == st[i] {
			run++
		}
		oneBitOK := true
		for j := i; j < i+14 && j < n; j++ {
			if st[j] > 1 {
				oneBitOK = false
			}
		}
		choice := style
		if style == 0 {
			choice = 1 + g.R.Intn(3)
		}
		if choice == 3 && !oneBitOK {
			choice = 2
		}
		switch choice {
		case 1:
			r := run
			if r > 8191 {
				r = 8191
			}
			if style == 0 && r > 1 && g.R.Intn(3) == 0 {
				r = 1 + g.R.Intn(r)
			}
			wire := r
			if i+r == n && (g.R.Intn(3) == 0 || n > 50000) {
				wire = r + g.Pick(1, 100, 8191-r) // run-length overshoot is clipped by the count
				if wire > 8191 {
					wire = 8191
				}
			}
			chunks = append(chunks, V{"ct": "rl", "typ": 0, "sym": st[i], "run": wire})
			i += r
		case 2:
			syms := make(L, 7)
			for j := 0; j < 7; j++ {
				if i+j < n {
					syms[j] = st[i+j]
				} else {
					syms[j] = 0
				}
			}
			chunks = append(chunks, V{"ct": "sv", "typ": 1, "ss": 1, "syms": syms})
			i += 7
		case 3:
			syms := make(L, 14)
			for j := 0; j < 14; j++ {
				if i+j < n {
					syms[j] = st[i+j]
				} else {
					syms[j] = 0
				}
			}
			chunks = append(chunks, V{"ct": "sv", "typ": 1, "ss": 0, "syms": syms})
			i += 14
		}
	}
	var deltas L
	content := 20 + 2*len(chunks)
	for k, s := range st {
		switch s {
		case 1:
			deltas = append(deltas, V{"t": 1, "ticks": g.Pick(0, 1, 254, 255, (k*7+1)%256), "rem": g.Pick(0, 0, 1, 249), "big": 0})
			content++
		case 2:
			tk := g.Pick(-32768, -1, 0, 256, 32767, (k*257+3)%32768)
			rem := g.Pick(0, 0, 1, 249)
			if tk < 0 {
				rem = -rem
			}
			deltas = append(deltas, V{"t": 2, "ticks": tk, "rem": rem, "big": 0})
			content += 2
		}
	}
	pad := (4 - content%4) % 4
	size := content + pad
	ref := g.U32()
	ref[0] = 0
	if chunks == nil {
		chunks = L{}
	}
	if deltas == nil {
		deltas = L{}
	}
	return V{"k": "TWCC", "hdr": V{"p": pad > 0 && g.Bool(), "c": 15, "t": 205, "len": size/4 - 1},
		"sender": g.U32(), "media": g.U32(), "base": g.U16(), "count": n, "ref": ref, "fb": g.U8(),
		"chunks": chunks, "deltas": deltas}
}

func (g *G) MB() V {
	if g.R.Intn(3) == 0 {
		return V{"r": false, "ecn": 0, "ato": 0}
	}
	return V{"r": true, "ecn": g.R.Intn(4), "ato": g.Pick(0, 1, 4095, 4096, 8191, g.R.Intn(8192))}
}

func (g *G) CCFB() V {
	nb := g.Pick(0, 1, 1, 2, 3)
	bs := make(L, nb)
	for i := range bs {
		n := g.Pick(0, 1, 2, 3, 4, 5, 6, 7)
		ms := make(L, n)
		for j := range ms {
			ms[j] = g.MB()
		}
		bs[i] = V{"media": g.U32(), "begin": g.Pick(0, 1, 65530, 65534, 65535, g.R.Intn(65536)), "mbs": ms}
		if i > 0 && g.R.Intn(3) == 0 {
			// the same stream continued: same source, the sequence range starts where the previous block's ends
			prev := bs[i-1].(V)
			bs[i] = V{"media": prev["media"], "begin": (prev["begin"].(int) + len(prev["mbs"].(L))) % 65536, "mbs": ms}
		}
	}
	return V{"k": "CCFB", "sender": g.U32(), "blocks": bs, "ts": g.U32()}
}

func (g *G) XRBlock() V {
	switch g.R.Intn(8) {
	case 0, 1:
		n := 2 * g.Pick(0, 1, 2, 3)
		cs := make(L, n)
		for i := range cs {
			cs[i] = g.U16()
		}
		bt := "lrle"
		if g.Bool() {
			bt = "drle"
		}
		bs, es := g.U16(), g.U16()
		if n > 0 && g.Bool() {
			// chunks that describe exactly [begin_seq, end_seq): runs, bit vectors of 15, maybe a terminating null
			cover := 0
			for i := range cs {
				if g.Bool() {
					r := g.Int(1, 40)
					cs[i] = g.Pick(0, 1)<<14 | r
					cover += r
				} else {
					cs[i] = 0x8000 | g.R.Intn(0x8000)
					cover += 15
				}
			}
			if g.Bool() {
				cs[n-1] = 0
				cover = 0
				for _, c := range cs[:n-1] {
					if c.(int)&0x8000 != 0 {
						cover += 15
					} else {
						cover += c.(int) & 0x3FFF
					}
				}
			}
			es = (bs + cover) % 65536
		}
		return V{"bt": bt, "t": g.R.Intn(16), "ssrc": g.U32(), "bs": bs, "es": es, "chunks": cs}
	case 2:
		nt := g.Pick(0, 1, 2, 3, 4)
		pbs, pes, pt := g.U16(), g.U16(), g.R.Intn(16)
		if g.Bool() {
			// as many receipt times as the interval has sequence numbers, one more (an inclusive end), one fewer
			pes = (pbs + nt + g.Pick(-1, 0, 0, 1) + 65536) % 65536
			pt = g.Pick(0, 0, pt)
		}
		return V{"bt": "prt", "t": pt, "ssrc": g.U32(), "bs": pbs, "es": pes, "times": g.U32s(nt)}
	case 3:
		return V{"bt": "rrt", "ntp": g.U64()}
	case 4:
		n := g.Pick(0, 1, 2, 3)
		rs := make(L, n)
		for i := range rs {
			rs[i] = V{"ssrc": g.U32(), "lrr": g.U32(), "dlrr": g.U32()}
		}
		return V{"bt": "dlrr", "reports": rs}
	case 5:
		sbs, ses, slost, sdup := g.U16(), g.U16(), g.U32(), g.U32()
		sl, sd := g.Bool(), g.Bool()
		if g.Bool() {
			// counters a real receiver would report: an interval, losses and duplicates related to it
			span := g.Pick(1, 2, 100, 1000, g.Int(1, 2000))
			ses = (sbs + span) % 65536
			dup := g.Pick(0, 0, 1, 7, span)
			lost := g.Pick(0, 1, span, span+dup, span-1, span+dup-1)
			slost, sdup = L{0, 0, lost >> 8 & 255, lost & 255}, L{0, 0, dup >> 8 & 255, dup & 255}
			sl, sd = g.Pick(1, 1, 0) == 1, g.Pick(1, 1, 0) == 1
		}
		return V{"bt": "ss", "l": sl, "d": sd, "j": g.Bool(), "toh": g.R.Intn(4), "ssrc": g.U32(), "bs": sbs, "es": ses,
			"lost": slost, "dup": sdup, "minj": g.U32(), "maxj": g.U32(), "meanj": g.U32(), "devj": g.U32(),
			"mint": g.U8(), "maxt": g.U8(), "meant": g.U8(), "devt": g.U8()}
	case 6:
		return V{"bt": "voip", "ssrc": g.U32(), "lr": g.U8(), "dr": g.U8(), "bd": g.U8(), "gd": g.U8(), "bdur": g.U16(), "gdur": g.U16(),
			"rtd": g.U16(), "esd": g.U16(), "sl": g.U8(), "nl": g.U8(), "rerl": g.U8(), "gmin": g.U8(), "rf": g.U8(), "erf": g.U8(),
			"moslq": g.U8(), "moscq": g.U8(), "rxc": g.U8(), "jbn": g.U16(), "jbm": g.U16(), "jba": g.U16()}
	}
	ub := g.Bytes(4 * g.Pick(0, 1, 2, 3, g.Int(0, 12)))
	if g.Bool() {
		// low-entropy content: 16-bit words from a tiny pool
		for i := 0; i+1 < len(ub); i += 2 {
			w := g.Pick(0, 0, 1, 0x0101, 0xFFFF)
			ub[i], ub[i+1] = w>>8, w&255
		}
	}
	return V{"bt": "unk", "type": g.Pick(0, 8, 9, 100, 255, g.Int(8, 40), g.Int(8, 255)), "ts": g.U8(), "bytes": ub}
}

func (g *G) XR() V {
	n := g.Pick(0, 1, 1, 2, 3, 4)
	bs := make(L, n)
	for i := range bs {
		bs[i] = g.XRBlock()
	}
	return V{"k": "XR", "sender": g.U32(), "blocks": bs}
}

// RAW is a framed packet of an unregistered (PT, FMT).
func (g *G) RAW() V {
	words := g.Pick(0, 1, 2, 3, 5)
	pt := g.Pick(0, 1, 72, 192, 199, 208, 209, 255, 205, 206)
	cnt := g.R.Intn(32)
	if pt == 205 {
		cnt = g.Pick(0, 2, 3, 4, 6, 10, 12, 14, 16, 31)
	}
	if pt == 206 {
		cnt = g.Pick(0, 3, 5, 6, 14, 16, 31)
	}
	b := L{128 + 32*g.R.Intn(2) + cnt, pt, words / 256, words % 256}
	b = append(b, g.Bytes(4*words)...)
	return V{"k": "RAW", "bytes": b}
}

var Kinds = []string{"SR", "RR", "SDES", "BYE", "APP", "NACK", "RRR", "TWCC", "CCFB", "PLI", "SLI", "FIR", "REMB", "XR", "RAW"}

func (g *G) Of(kind string) V {
	switch kind {
	case "SR":
		return g.SR()
	case "RR":
		return g.RR()
	case "SDES":
		return g.SDES()
	case "BYE":
		return g.BYE()
	case "APP":
		return g.APP()
	case "NACK":
		return g.NACK()
	case "RRR":
		return g.RRR()
	case "TWCC":
		return g.TWCC()
	case "CCFB":
		return g.CCFB()
	case "PLI":
		return g.PLI()
	case "SLI":
		return g.SLI()
	case "FIR":
		return g.FIR()
	case "REMB":
		return g.REMB()
	case "XR":
		return g.XR()
	case "RAW":
		return g.RAW()
	}
	panic("gen: unknown kind " + kind)
}

func (g *G) Any() V { return g.Of(Kinds[g.R.Intn(len(Kinds))]) }

func (g *G) Kinds() []string { return Kinds }
