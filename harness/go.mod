module verif/harness

go 1.20

require (
	github.com/pion/rtcp v0.0.0
	pgregory.net/rapid v1.3.0
)

replace github.com/pion/rtcp => /repo
