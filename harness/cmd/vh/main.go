// vh is the harness binary: it drives the real pion/rtcp code and writes
// ndjson event traces for TLC (spec/Trace.tla), or replays TLC-generated
// behaviours. It judges nothing except direct equality with results the
// specification computed (replay mode).
package main

import (
	"bufio"
	"flag"
	"fmt"
	"os"

	"verif/harness/dict"
	"verif/harness/exec"
	"verif/harness/gen"
)

func main() {
	if len(os.Args) < 2 {
		fmt.Fprintln(os.Stderr, "usage: vh <drive|replay> ...")
		os.Exit(2)
	}
	gen.Dict = dict.Load(dict.Repo())
	switch os.Args[1] {
	case "drive":
		drive(os.Args[2:])
	case "replay":
		replay(os.Args[2:])
	case "rerun":
		rerun(os.Args[2:])
	case "conc":
		conc(os.Args[2:])
	default:
		fmt.Fprintln(os.Stderr, "unknown subcommand", os.Args[1])
		os.Exit(2)
	}
}

func drive(args []string) {
	fs := flag.NewFlagSet("drive", flag.ExitOnError)
	driver := fs.String("driver", "rt", "driver name")
	n := fs.Int("n", 100, "number of cases")
	seed := fs.Int64("seed", 1, "seed")
	out := fs.String("out", "/dev/stdout", "event file")
	_ = fs.Parse(args)
	f, err := os.Create(*out)
	if err != nil {
		panic(err)
	}
	w := bufio.NewWriterSize(f, 1<<20)
	s := exec.New(w)
	g := gen.New(*seed)
	d, ok := drivers[*driver]
	if !ok {
		fmt.Fprintln(os.Stderr, "unknown driver", *driver)
		os.Exit(2)
	}
	d(s, g, *n)
	if err := w.Flush(); err != nil {
		panic(err)
	}
	f.Close()
	fmt.Fprintf(os.Stderr, "VERIF_EVENTS %d\n", s.N)
}

var drivers = map[string]func(*exec.State, *gen.G, int){
	"rt": driveRT,
}

// driveRT: round trips of random well-formed values of every kind.
func driveRT(s *exec.State, g *gen.G, n int) {
	for i := 0; i < n; i++ {
		scriptRT(s, g.Of(gen.Kinds[i%len(gen.Kinds)]))
	}
}

func replay(args []string) {
	fs := flag.NewFlagSet("replay", flag.ExitOnError)
	in := fs.String("in", "", "behaviour file (one JSON object per line)")
	out := fs.String("out", "/dev/stdout", "event file")
	_ = fs.Parse(args)
	f, err := os.Create(*out)
	if err != nil {
		panic(err)
	}
	w := bufio.NewWriterSize(f, 1<<20)
	s := exec.New(w)
	n := replayFile(s, *in)
	if err := w.Flush(); err != nil {
		panic(err)
	}
	f.Close()
	fmt.Fprintf(os.Stderr, "VERIF_EVENTS %d\nVERIF_ITEMS %d\n", s.N, n)
}
