// vh is the harness binary: it drives the real pion/rtcp code and writes
// ndjson event traces for TLC (spec/Trace.tla), or replays TLC-generated
// behaviours. It judges nothing except direct equality with results the
// specification computed (replay mode).
package main

import (
	"bufio"
	"flag"
	"fmt"
	"os"

	"verif/harness/exec"
	"verif/harness/gen"
)

func main() {
	if len(os.Args) < 2 {
		fmt.Fprintln(os.Stderr, "usage: vh <drive|replay> ...")
		os.Exit(2)
	}
	switch os.Args[1] {
	case "drive":
		drive(os.Args[2:])
	case "replay":
		replay(os.Args[2:])
	default:
		fmt.Fprintln(os.Stderr, "unknown subcommand", os.Args[1])
		os.Exit(2)
	}
}

func drive(args []string) {
	fs := flag.NewFlagSet("drive", flag.ExitOnError)
	driver := fs.String("driver", "rt", "driver name")
	n := fs.Int("n", 100, "number of cases")
	seed := fs.Int64("seed", 1, "seed")
	out := fs.String("out", "/dev/stdout", "event file")
	_ = fs.Parse(args)
	f, err := os.Create(*out)
	if err != nil {
		panic(err)
	}
	w := bufio.NewWriterSize(f, 1<<20)
	s := exec.New(w)
	g := gen.New(*seed)
	d, ok := drivers[*driver]
	if !ok {
		fmt.Fprintln(os.Stderr, "unknown driver", *driver)
		os.Exit(2)
	}
	d(s, g, *n)
	if err := w.Flush(); err != nil {
		panic(err)
	}
	f.Close()
	fmt.Fprintf(os.Stderr, "VERIF_EVENTS %d\n", s.N)
}

var drivers = map[string]func(*exec.State, *gen.G, int){
	"rt": driveRT,
}

// driveRT: round trips of well-formed values of every kind through every API.
func driveRT(s *exec.State, g *gen.G, n int) {
	for i := 0; i < n; i++ {
		v := g.Of(gen.Kinds[i%len(gen.Kinds)])
		kind := v["k"].(string)
		s.Reset()
		s.Build(1, v)
		s.Marshal(1)
		s.Size(1)
		s.Header(1)
		s.Dest(1)
		s.String(1)
		s.Unmarshal(kind, 1, 2)
		if _, ok := s.Pk[2]; ok {
			s.Dest(2)
			s.Marshal(2)
			s.String(2)
		}
		s.Datagram(1, 3)
		if _, ok := s.Pk[3]; ok {
			s.Marshal(3)
		}
	}
}

func replay(args []string) {
	fmt.Fprintln(os.Stderr, "replay: not built yet")
	os.Exit(2)
}
