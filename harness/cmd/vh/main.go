// vh is the harness binary: it drives the real pion/rtcp code and writes
// ndjson event traces for TLC (spec/Trace.tla), or replays TLC-generated
// behaviours. It judges nothing except direct equality with results the
// specification computed (replay mode).
package main

import (
	"bufio"
	"flag"
	"fmt"
	"os"

	"verif/harness/abs"
	"verif/harness/dict"
	"verif/harness/exec"
	"verif/harness/gen"
)

func main() {
	if len(os.Args) < 2 {
		fmt.Fprintln(os.Stderr, "usage: vh <drive|replay> ...")
		os.Exit(2)
	}
	gen.Dict = dict.Load(dict.Repo())
	switch os.Args[1] {
	case "drive":
		drive(os.Args[2:])
	case "replay":
		replay(os.Args[2:])
	case "rerun":
		rerun(os.Args[2:])
	case "conc":
		conc(os.Args[2:])
	default:
		fmt.Fprintln(os.Stderr, "unknown subcommand", os.Args[1])
		os.Exit(2)
	}
}

func drive(args []string) {
	fs := flag.NewFlagSet("drive", flag.ExitOnError)
	driver := fs.String("driver", "rt", "driver name")
	n := fs.Int("n", 100, "number of cases")
	seed := fs.Int64("seed", 1, "seed")
	out := fs.String("out", "/dev/stdout", "event file")
	_ = fs.Parse(args)
	f, err := os.Create(*out)
	if err != nil {
		panic(err)
	}
	w := bufio.NewWriterSize(f, 1<<20)
	s := exec.New(w)
	g := gen.New(*seed)
	d, ok := drivers[*driver]
	if !ok {
		fmt.Fprintln(os.Stderr, "unknown driver", *driver)
		os.Exit(2)
	}
	d(s, g, *n)
	if err := w.Flush(); err != nil {
		panic(err)
	}
	f.Close()
	fmt.Fprintf(os.Stderr, "VERIF_EVENTS %d\n", s.N)
}

var drivers = map[string]func(*exec.State, *gen.G, int){
	"rt": driveRT,
}

// driveRT: round trips of random well-formed values of every kind.
func driveRT(s *exec.State, g *gen.G, n int) {
	for i := 0; i < n; i++ {
		v := g.Of(gen.Kinds[i%len(gen.Kinds)])
		if i%5 == 4 {
			selfRef(g, v)
		}
		scriptRT(s, v)
	}
}

// selfRef makes a numeric field of v describe v itself: an SSRC, sequence number or count-like field is set to
// the length of one of the packet's lists, to the size of its encoding in octets or words, or to a list element's
// index (values no generator of independent fields produces, and the kind of coincidence "clever" code keys on).
func selfRef(g *gen.G, v abs.V) {
	var nums []int
	if b := encodeWith(v); b != nil {
		nums = append(nums, len(b), len(b)/4, len(b)/4-1, len(b)-4)
	}
	for _, x := range v {
		if l, ok := x.(abs.L); ok {
			nums = append(nums, len(l), len(l)-1, len(l)+1)
		}
	}
	if len(nums) == 0 {
		return
	}
	pick := func() int {
		n := nums[g.R.Intn(len(nums))]
		if n < 0 {
			n = 0
		}
		return n
	}
	for _, f := range []string{"ssrc", "sender", "media"} {
		if _, ok := v[f]; ok && g.Bool() {
			v[f] = abs.U32(uint32(pick()))
		}
	}
	for _, f := range []string{"base", "fb"} {
		if _, ok := v[f].(int); ok && g.Bool() {
			v[f] = pick() % 256
		}
	}
	for _, lf := range []string{"nacks", "sli", "fir", "srcs", "ssrcs", "reports"} {
		l, ok := v[lf].(abs.L)
		if !ok || len(l) == 0 {
			continue
		}
		i := g.R.Intn(len(l))
		switch e := l[i].(type) {
		case abs.V:
			for _, f := range []string{"pid", "first", "number", "seq"} {
				if _, ok := e[f].(int); ok && g.Bool() {
					e[f] = g.Pick(len(l), i, i+1, pick()) % 256
				}
			}
			if _, ok := e["ssrc"]; ok && g.Bool() {
				e["ssrc"] = abs.U32(uint32(g.Pick(len(l), i, pick())))
			}
		case abs.L:
			if len(e) == 4 && g.Bool() {
				l[i] = abs.U32(uint32(g.Pick(len(l), i, pick())))
			}
		}
	}
}

func replay(args []string) {
	fs := flag.NewFlagSet("replay", flag.ExitOnError)
	in := fs.String("in", "", "behaviour file (one JSON object per line)")
	out := fs.String("out", "/dev/stdout", "event file")
	_ = fs.Parse(args)
	f, err := os.Create(*out)
	if err != nil {
		panic(err)
	}
	w := bufio.NewWriterSize(f, 1<<20)
	s := exec.New(w)
	n := replayFile(s, *in)
	if err := w.Flush(); err != nil {
		panic(err)
	}
	f.Close()
	fmt.Fprintf(os.Stderr, "VERIF_EVENTS %d\nVERIF_ITEMS %d\n", s.N, n)
}
