package main

import (
	"bytes"
	"flag"
	"fmt"
	"math/rand"
	"os"
	"runtime"
	"sync"

	"github.com/pion/rtcp"

	"verif/harness/abs"
	"verif/harness/exec"
	"verif/harness/gen"
)

// conc runs seeded random programs on many goroutines at once: read-only
// operations on shared packets, every operation on private ones (C18). Build
// with -race: a detected race makes the process exit with status 66.
// Each goroutine records its own event stream; the streams are written one
// after the other and validated like any other trace, so every result
// observed under concurrency is compared with the specification's (sequential)
// result for the same value.
func conc(args []string) {
	fs := flag.NewFlagSet("conc", flag.ExitOnError)
	n := fs.Int("n", 50, "rounds")
	seed := fs.Int64("seed", 1, "seed")
	out := fs.String("out", "/dev/stdout", "event file")
	gor := fs.Int("g", 12, "goroutines per round")
	_ = fs.Parse(args)
	f, err := os.Create(*out)
	if err != nil {
		panic(err)
	}
	defer f.Close()
	total := 0
	master := gen.New(*seed)
	// cold start: the very first library calls of the process are made by all goroutines at once (whatever the
	// package initialises lazily is initialised under contention). What they do first rotates with the seed:
	// decode an extended report holding every block kind, encode and size one, or one packet of every kind.
	{
		xr := abs.V{"k": "XR", "sender": abs.L{1, 2, 3, 4}, "blocks": abs.L{}}
		gx := gen.New(*seed + 77)
		for len(abs.List(xr["blocks"])) < 24 {
			xr["blocks"] = append(abs.List(xr["blocks"]), gx.XRBlock())
		}
		var xrBytes []byte
		mode := int(*seed % 3)
		start := make(chan struct{})
		cbufs := make([]*bytes.Buffer, *gor)
		ccounts := make([]int, *gor)
		var wg sync.WaitGroup
		for gi := 0; gi < *gor; gi++ {
			cbufs[gi] = &bytes.Buffer{}
			wg.Add(1)
			go func(gi int) {
				defer wg.Done()
				s := exec.New(cbufs[gi])
				s.NoAlloc = true
				g := gen.New(*seed*31 + int64(gi))
				<-start
				switch mode {
				case 0:
					scriptDgram(s, xrBytes)
				case 1:
					scriptRT(s, xr)
				default:
					for _, k := range g.Kinds() {
						scriptRT(s, g.Of(k))
					}
				}
				seqs := make([]uint16, 40)
				for i := range seqs {
					seqs[i] = uint16(gi*1000 + i*3)
				}
				scriptNack(s, seqs)
				ccounts[gi] = s.N
			}(gi)
		}
		if mode == 0 {
			// the datagram the goroutines decode is written by hand below the library: header, sender, one block of each kind
			xrBytes = []byte{0x80, 207, 0, 0, 1, 2, 3, 4,
				4, 0, 0, 2, 1, 2, 3, 4, 5, 6, 7, 8,
				5, 0, 0, 3, 1, 1, 1, 1, 2, 2, 2, 2, 3, 3, 3, 3,
				1, 0, 0, 3, 9, 9, 9, 9, 0, 1, 0, 5, 0x40, 5, 0, 0,
				2, 0, 0, 3, 9, 9, 9, 9, 0, 1, 0, 5, 0x80, 5, 0, 0,
				3, 0, 0, 3, 9, 9, 9, 9, 0, 1, 0, 2, 0, 0, 0, 7,
				6, 0xE8, 0, 9, 9, 9, 9, 9, 0, 1, 0, 2, 0, 0, 0, 1, 0, 0, 0, 2, 0, 0, 0, 3, 0, 0, 0, 4, 0, 0, 0, 5, 0, 0, 0, 6, 1, 2, 3, 4,
				7, 0, 0, 8, 9, 9, 9, 9, 1, 2, 3, 4, 0, 5, 0, 6, 0, 7, 0, 8, 9, 10, 11, 12, 13, 14, 15, 16, 17, 0, 0, 18, 0, 19, 0, 20,
				77, 1, 0, 1, 1, 2, 3, 4}
			n := len(xrBytes)/4 - 1
			xrBytes[2], xrBytes[3] = byte(n>>8), byte(n)
		}
		close(start)
		wg.Wait()
		for gi := range cbufs {
			f.Write(cbufs[gi].Bytes())
			total += ccounts[gi]
		}
	}
	for round := 0; round < *n; round++ {
		runtime.GOMAXPROCS([]int{2, 4, 8, 16}[round%4])
		// shared packets: built values and packets returned by rtcp.Unmarshal
		var shared []rtcp.Packet
		for i := 0; i < 4; i++ {
			v := master.Any()
			for v["k"] == "XR" { // ExtendedReport.Marshal writes its blocks' headers (documented), so it is not read-only
				v = master.Any()
			}
			shared = append(shared, abs.Build(v))
		}
		q := exec.New(nil)
		q.Quiet = true
		q.Build(1, abs.V{"k": "LIST", "pkts": abs.L{master.SR(), master.SDES(), master.NACK(), master.TWCC(), master.REMB()}})
		q.Marshal(1)
		if ps, err := rtcp.Unmarshal(q.Buf[1]); err == nil {
			shared = append(shared, ps...)
		}
		bufs := make([]*bytes.Buffer, *gor)
		counts := make([]int, *gor)
		var wg sync.WaitGroup
		for gi := 0; gi < *gor; gi++ {
			bufs[gi] = &bytes.Buffer{}
			wg.Add(1)
			go func(gi int, seed int64) {
				defer wg.Done()
				g := gen.New(seed)
				s := exec.New(bufs[gi])
				s.NoAlloc = true
				r := rand.New(rand.NewSource(seed))
				for step := 0; step < 30; step++ {
					if r.Intn(3) == 0 {
						runtime.Gosched()
					}
					switch r.Intn(4) {
					case 0, 1: // read-only operations on a shared packet
						s.Reset()
						s.Adopt(9, shared[r.Intn(len(shared))])
						for k := 0; k < 4; k++ {
							switch r.Intn(5) {
							case 0:
								s.Marshal(9)
							case 1:
								s.Size(9)
							case 2:
								s.Dest(9)
							case 3:
								s.String(9)
							case 4:
								s.Header(9)
							}
						}
					case 2: // everything on a private packet
						scriptRT(s, g.Any())
					case 3: // decoding private bytes
						scriptDgram(s, fuzzInput(g))
						if r.Intn(3) == 0 { // the stateless helpers, on private lists
							seqs := make([]uint16, r.Intn(60))
							for i := range seqs {
								seqs[i] = uint16(r.Intn(65536))
							}
							scriptNack(s, seqs)
						}
					}
				}
				counts[gi] = s.N
			}(gi, *seed*1000003+int64(round)*131+int64(gi))
		}
		wg.Wait()
		for gi := range bufs {
			f.Write(bufs[gi].Bytes())
			total += counts[gi]
		}
	}
	fmt.Fprintf(os.Stderr, "VERIF_EVENTS %d\n", total)
}
