package main

import (
	"bytes"
	"flag"
	"fmt"
	"math/rand"
	"os"
	"runtime"
	"sync"

	"github.com/pion/rtcp"

	"verif/harness/abs"
	"verif/harness/exec"
	"verif/harness/gen"
)

// conc runs seeded random programs on many goroutines at once: read-only
// operations on shared packets, every operation on private ones (C18). Build
// with -race: a detected race makes the process exit with status 66.
// Each goroutine records its own event stream; the streams are written one
// after the other and validated like any other trace, so every result
// observed under concurrency is compared with the specification's (sequential)
// result for the same value.
func conc(args []string) {
	fs := flag.NewFlagSet("conc", flag.ExitOnError)
	n := fs.Int("n", 50, "rounds")
	seed := fs.Int64("seed", 1, "seed")
	out := fs.String("out", "/dev/stdout", "event file")
	gor := fs.Int("g", 12, "goroutines per round")
	_ = fs.Parse(args)
	f, err := os.Create(*out)
	if err != nil {
		panic(err)
	}
	defer f.Close()
	total := 0
	master := gen.New(*seed)
	for round := 0; round < *n; round++ {
		runtime.GOMAXPROCS([]int{2, 4, 8, 16}[round%4])
		// shared packets: built values and packets returned by rtcp.Unmarshal
		var shared []rtcp.Packet
		for i := 0; i < 4; i++ {
			v := master.Any()
			for v["k"] == "XR" { // ExtendedReport.Marshal writes its blocks' headers (documented), so it is not read-only
				v = master.Any()
			}
			shared = append(shared, abs.Build(v))
		}
		q := exec.New(nil)
		q.Quiet = true
		q.Build(1, abs.V{"k": "LIST", "pkts": abs.L{master.SR(), master.SDES(), master.NACK(), master.TWCC(), master.REMB()}})
		q.Marshal(1)
		if ps, err := rtcp.Unmarshal(q.Buf[1]); err == nil {
			shared = append(shared, ps...)
		}
		bufs := make([]*bytes.Buffer, *gor)
		counts := make([]int, *gor)
		var wg sync.WaitGroup
		for gi := 0; gi < *gor; gi++ {
			bufs[gi] = &bytes.Buffer{}
			wg.Add(1)
			go func(gi int, seed int64) {
				defer wg.Done()
				g := gen.New(seed)
				s := exec.New(bufs[gi])
				s.NoAlloc = true
				r := rand.New(rand.NewSource(seed))
				for step := 0; step < 30; step++ {
					if r.Intn(3) == 0 {
						runtime.Gosched()
					}
					switch r.Intn(4) {
					case 0, 1: // read-only operations on a shared packet
						s.Reset()
						s.Adopt(9, shared[r.Intn(len(shared))])
						for k := 0; k < 4; k++ {
							switch r.Intn(5) {
							case 0:
								s.Marshal(9)
							case 1:
								s.Size(9)
							case 2:
								s.Dest(9)
							case 3:
								s.String(9)
							case 4:
								s.Header(9)
							}
						}
					case 2: // everything on a private packet
						scriptRT(s, g.Any())
					case 3: // decoding private bytes
						scriptDgram(s, fuzzInput(g))
					}
				}
				counts[gi] = s.N
			}(gi, *seed*1000003+int64(round)*131+int64(gi))
		}
		wg.Wait()
		for gi := range bufs {
			f.Write(bufs[gi].Bytes())
			total += counts[gi]
		}
	}
	fmt.Fprintf(os.Stderr, "VERIF_EVENTS %d\n", total)
}
