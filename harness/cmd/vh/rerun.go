package main

import (
	"bufio"
	"flag"
	"fmt"
	"os"
	"strings"
	"time"

	"verif/harness/abs"
	"verif/harness/exec"
)

// rerun re-executes the operations of a recorded case (an event file: the
// results in it are ignored) against the real code and writes fresh events.
func rerun(args []string) {
	fs := flag.NewFlagSet("rerun", flag.ExitOnError)
	in := fs.String("in", "", "case file (events, one per line)")
	out := fs.String("out", "/dev/stdout", "event file")
	_ = fs.Parse(args)
	f, err := os.Open(*in)
	if err != nil {
		panic(err)
	}
	defer f.Close()
	o, err := os.Create(*out)
	if err != nil {
		panic(err)
	}
	w := bufio.NewWriterSize(o, 1<<20)
	s := exec.New(w)
	sc := bufio.NewScanner(f)
	sc.Buffer(make([]byte, 1<<20), 1<<28)
	for sc.Scan() {
		line := strings.TrimSpace(sc.Text())
		if line == "" {
			continue
		}
		ev, err := parseJSONLine(line)
		if err != nil {
			panic(err)
		}
		execOp(s, ev)
	}
	w.Flush()
	o.Close()
	fmt.Fprintf(os.Stderr, "VERIF_EVENTS %d\n", s.N)
}

func execOp(s *exec.State, ev abs.V) {
	h := 0
	if x, ok := ev["h"]; ok {
		h = abs.I(x)
	}
	switch ev["op"] {
	case "reset":
		s.Reset()
	case "consts":
		s.Constants()
	case "scribble":
		s.Scribble(h)
	case "build":
		if sc, ok := ev["scribbled"].(bool); ok && sc {
			break // emitted by Scribble itself
		}
		if off, ok := ev["ntpnow"]; ok {
			s.BuildNow(h, ev["v"], time.Duration(abs.I(off)))
			break
		}
		if r, ok := ev["rebuild"].(bool); ok && r {
			s.Rebuild(h, ev["v"])
		} else {
			s.Build(h, ev["v"])
		}
	case "setbuf":
		s.SetBuf(h, abs.GoBytes(ev["bytes"]))
	case "marshal":
		if _, ok := s.Pk[h]; ok {
			s.Marshal(h)
		}
	case "size":
		if _, ok := s.Pk[h]; ok {
			s.Size(h)
		}
	case "dest":
		if _, ok := s.Pk[h]; ok {
			s.Dest(h)
		}
	case "header":
		if _, ok := s.Pk[h]; ok {
			s.Header(h)
		}
	case "string":
		if _, ok := s.Pk[h]; ok {
			s.String(h)
		}
	case "pick":
		var idx []int
		for _, i := range abs.List(ev["idx"]) {
			idx = append(idx, abs.I(i)-1)
		}
		s.Pick(abs.I(ev["src"]), h, idx)
	case "lenacc":
		if _, ok := s.Pk[h]; ok {
			s.LenAcc(h)
		}
	case "marshalto":
		if _, ok := s.Pk[h]; ok {
			s.MarshalTo(h, abs.I(ev["size"]))
		}
	case "validate":
		if _, ok := s.Pk[h]; ok {
			s.Validate(h)
		}
	case "cname":
		if _, ok := s.Pk[h]; ok {
			s.CNAME(h)
		}
	case "unmarshal":
		dh := 0
		if x, ok := ev["dh"]; ok {
			dh = abs.I(x)
		}
		eqh := 0
		if x, ok := ev["eqh"]; ok {
			eqh = abs.I(x)
		}
		eqb := 0
		if x, ok := ev["eqb"]; ok {
			eqb = abs.I(x)
		}
		if r, ok := ev["reuse"].(bool); ok && r {
			s.UnmarshalInto(ev["entry"].(string), abs.I(ev["b"]), h)
			break
		}
		s.UnmarshalFull(ev["entry"].(string), abs.I(ev["b"]), h, dh, eqh, eqb)
	case "unmarshal2":
		s.UnmarshalReuse(ev["entry"].(string), abs.GoBytes(ev["first"]), abs.I(ev["b"]))
	case "datagram":
		var parts []int
		if pl, ok := ev["parts"]; ok {
			for _, p := range abs.List(pl) {
				parts = append(parts, abs.I(p))
			}
		}
		s.DatagramParts(abs.I(ev["b"]), h, parts)
	case "udec":
		if a, ok := ev["again"].(bool); ok && a {
			break // emitted by the UnitDecode before it
		}
		if r, ok := ev["reuse"].(bool); ok && r {
			s.UnitDecodeInto(ev["entry"].(string), abs.GoBytes(ev["prev"]), abs.I(ev["b"]))
			break
		}
		s.UnitDecode(ev["entry"].(string), abs.I(ev["b"]))
	case "uenc":
		s.UnitEncode(ev["entry"].(string), ev["v"], h)
	default:
		if f, ok := extraOps[fmt.Sprint(ev["op"])]; ok {
			f(s, ev)
			return
		}
		panic(fmt.Sprintf("rerun: unknown op %v", ev["op"]))
	}
}

var extraOps = map[string]func(*exec.State, abs.V){}
