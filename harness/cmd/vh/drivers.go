package main

import (
	"fmt"
	"strings"

	"verif/harness/dict"

	"verif/harness/abs"
	"verif/harness/exec"
	"verif/harness/gen"
)

func init() {
	drivers["fuzz"] = driveFuzz
	drivers["fuzzdgram"] = driveFuzzDgram
	drivers["rtlist"] = driveRTList
}

// encodeWith marshals an abstract value with the real library (quietly: no
// events), to obtain seed bytes for mutation.
func encodeWith(v abs.V) []byte {
	q := exec.New(nil)
	q.Quiet = true
	q.Build(1, v)
	q.Marshal(1)
	return q.Buf[1]
}

func randBytes(g *gen.G, n int) []byte {
	b := make([]byte, n)
	for i := range b {
		b[i] = byte(g.R.Intn(256))
	}
	return b
}

// mutate applies one structure-aware mutation.
func mutate(g *gen.G, b []byte) []byte {
	b = append([]byte(nil), b...)
	if len(b) == 0 {
		return randBytes(g, g.Int(0, 8))
	}
	switch g.R.Intn(14) {
	case 12: // a dictionary token written over the packet at some offset
		if len(gen.Dict) > 0 {
			t := gen.Dict[g.R.Intn(len(gen.Dict))]
			if len(b) >= len(t) {
				i := g.R.Intn(len(b) - len(t) + 1)
				if g.Bool() {
					i -= i % 4
				}
				copy(b[i:], t)
			}
		}
	case 13: // a dictionary token inserted, the length field adjusted if the result is aligned
		if len(gen.Dict) > 0 && len(b) >= 4 {
			t := gen.Dict[g.R.Intn(len(gen.Dict))]
			i := 4 + g.R.Intn(len(b)-3)
			b = append(b[:i:i], append(append([]byte(nil), t...), b[i:]...)...)
			if len(b)%4 == 0 {
				l := len(b)/4 - 1
				b[2], b[3] = byte(l>>8), byte(l)
			}
		}
	case 0: // truncate
		return b[:g.R.Intn(len(b))]
	case 1: // extend
		return append(b, randBytes(g, g.Int(1, 8))...)
	case 2: // flip a bit
		i := g.R.Intn(len(b))
		b[i] ^= 1 << uint(g.R.Intn(8))
	case 3: // set a byte
		b[g.R.Intn(len(b))] = byte(g.Pick(0, 1, 127, 128, 255, g.R.Intn(256)))
	case 4: // length field lies
		if len(b) >= 4 {
			l := g.Pick(0, 1, 2, 3, len(b)/4-2, len(b)/4-1, len(b)/4, 16383, 16384, 65535)
			if l < 0 {
				l = 0
			}
			b[2], b[3] = byte(l>>8), byte(l)
		}
	case 5: // count field
		b[0] = b[0]&0xE0 | byte(g.R.Intn(32))
	case 6: // packet type
		if len(b) >= 2 {
			b[1] = byte(g.Pick(200, 201, 202, 203, 204, 205, 206, 207, 208, g.R.Intn(256)))
		}
	case 7: // padding bit
		b[0] ^= 0x20
	case 8: // grow the frame and fix the length field
		if len(b) >= 4 && len(b)%4 == 0 {
			n := g.Int(1, 3)
			b = append(b, randBytes(g, 4*n)...)
			l := len(b)/4 - 1
			b[2], b[3] = byte(l>>8), byte(l)
		}
	case 9: // shrink the frame and fix the length field
		if len(b) >= 8 && len(b)%4 == 0 {
			b = b[:len(b)-4*g.Int(1, (len(b)-4)/4)]
			l := len(b)/4 - 1
			b[2], b[3] = byte(l>>8), byte(l)
		}
	case 10: // overwrite a 16-bit field
		if len(b) >= 6 {
			i := 4 + g.R.Intn(len(b)-5)
			x := g.U16()
			b[i], b[i+1] = byte(x>>8), byte(x)
		}
	case 11: // zero or saturate a word
		if len(b) >= 8 {
			i := 4 * g.R.Intn(len(b)/4)
			x := byte(g.Pick(0, 255))
			for j := i; j < i+4 && j < len(b); j++ {
				b[j] = x
			}
		}
	}
	return b
}

func seedBytes(g *gen.G) []byte {
	switch g.R.Intn(10) {
	case 0:
		return randBytes(g, g.Pick(0, 1, 2, 3, 4, 5, 7, 8, 11, 12, 16, 20, 24, 28, 64))
	case 1: // random with a plausible header
		n := g.Int(0, 12)
		b := randBytes(g, 4+4*n)
		b[0] = 0x80 | byte(g.R.Intn(64))
		b[1] = byte(g.Pick(200, 201, 202, 203, 204, 205, 206, 207))
		b[2], b[3] = 0, byte(n)
		return b
	}
	return encodeWith(g.Any())
}

func fuzzInput(g *gen.G) []byte {
	b := seedBytes(g)
	for k := g.Pick(0, 1, 1, 1, 2, 3); k > 0; k-- {
		b = mutate(g, b)
	}
	if g.R.Intn(6) == 0 { // splice two
		b = append(b, mutate(g, seedBytes(g))...)
	}
	return b
}

// driveFuzz: random and mutated byte strings through every decode entry
// point, with the C09 follow-up (C01 C04 C06 C07 C09 C13 C16 C17).
func driveFuzz(s *exec.State, g *gen.G, n int) {
	for i := 0; i < n; i++ {
		scriptDec(s, fuzzInput(g))
	}
}

// driveFuzzDgram: the same inputs through the datagram decoder only (cheaper
// per input; C06 C09).
func driveFuzzDgram(s *exec.State, g *gen.G, n int) {
	for i := 0; i < n; i++ {
		scriptDgram(s, fuzzInput(g))
	}
}

// driveRTList: lists of 0..8 well-formed packets through rtcp.Marshal and
// rtcp.Unmarshal (C02: lists in order).
func driveRTList(s *exec.State, g *gen.G, n int) {
	for i := 0; i < n; i++ {
		k := g.Pick(1, 2, 2, 3, 4, 8)
		pk := make(abs.L, k)
		for j := range pk {
			pk[j] = g.Any()
			if g.R.Intn(6) == 0 {
				// a CompoundPacket as one member of the list: rtcp.Marshal writes its members in place
				head := g.RR()
				if g.Bool() {
					head = g.SR()
				}
				cp := abs.L{head, abs.V{"k": "SDES", "chunks": abs.L{abs.V{"src": g.U32(), "items": abs.L{abs.V{"t": 1, "text": g.Bytes(g.Int(1, 6))}}}}}}
				for m := g.Int(0, 2); m > 0; m-- {
					cp = append(cp, g.Of([]string{"BYE", "PLI", "APP", "NACK"}[g.R.Intn(4)]))
				}
				pk[j] = abs.V{"k": "CP", "pkts": cp}
			}
		}
		scriptRT(s, abs.V{"k": "LIST", "pkts": pk})
	}
}

func init() {
	drivers["frameseq"] = driveFrameSeq
	drivers["limits"] = driveLimits
}

// driveFrameSeq: sequences of up to 12 frames (valid encodings of random
// values, raw frames), one of them possibly faulted, or junk appended (C06).
func driveFrameSeq(s *exec.State, g *gen.G, n int) {
	for i := 0; i < n; i++ {
		k := g.Pick(1, 2, 2, 3, 3, 4, 5, 8, 12)
		frames := make([][]byte, 0, k+1)
		for j := 0; j < k; j++ {
			frames = append(frames, encodeWith(g.Any()))
		}
		switch g.R.Intn(4) {
		case 0: // fault one frame, keeping it a complete frame where possible
			j := g.R.Intn(k)
			frames[j] = mutate(g, frames[j])
		case 1: // junk tail
			frames = append(frames, randBytes(g, g.Int(1, 7)))
		case 2: // truncated last frame
			f := frames[k-1]
			if len(f) > 1 {
				frames[k-1] = f[:g.Int(1, len(f)-1)]
			}
		}
		scriptFrames(s, frames)
	}
}

// driveLimits: well-formed values with one field pushed to, just below or
// just above its wire limit (C08).
func driveLimits(s *exec.State, g *gen.G, n int) {
	for i := 0; i < n; i++ {
		var v abs.V
		sel := g.R.Intn(11)
		if sel == 9 && g.R.Intn(8) != 0 {
			sel = 10
		}
		switch sel {
		case 0:
			v = g.SR()
			v["reports"] = g.RBs(g.Pick(30, 31, 32, 33, 40))
		case 1:
			v = g.RR()
			v["reports"] = g.RBs(g.Pick(30, 31, 32, 33, 40))
		case 2:
			v = g.SR()
			rs := g.RBs(g.Pick(1, 2, 3))
			lost := abs.L{g.Pick(0, 0, 1, 2, 255), g.Pick(0, 255), g.Pick(0, 255), g.Pick(0, 1, 255)}
			rs[g.R.Intn(len(rs))].(abs.V)["lost"] = lost
			v["reports"] = rs
		case 3:
			v = g.SDES()
			cs := make(abs.L, g.Pick(30, 31, 32, 33))
			for j := range cs {
				cs[j] = g.Chunk()
			}
			v["chunks"] = cs
		case 4:
			v = abs.V{"k": "SDES", "chunks": abs.L{abs.V{"src": g.U32(), "items": abs.L{g.Item(), abs.V{"t": g.Pick(0, 1, 2), "text": g.Bytes(g.Pick(253, 254, 255, 256, 257, 400))}}}}}
		case 5:
			v = g.BYE()
			v["srcs"] = g.U32s(g.Pick(30, 31, 32, 33))
		case 6:
			v = g.BYE()
			v["reason"] = g.Bytes(g.Pick(253, 254, 255, 256, 257, 400))
		case 7:
			v = g.APP()
			if g.Bool() {
				v["st"] = g.Pick(30, 31, 32, 33, 255)
			} else {
				v["name"] = g.Bytes(g.Pick(0, 3, 4, 5, 8))
			}
		case 8:
			v = g.REMB()
			if g.Bool() {
				v["ssrcs"] = g.U32s(g.Pick(254, 255, 256, 257, 300))
			} else {
				v["br"] = abs.V{"s": 1, "e": g.Pick(0, 1, 127, 254), "f": g.Pick(0, 1, 0x7FFFFF)}
			}
		case 9:
			v = g.CCFB()
			ms := make(abs.L, g.Pick(16383, 16384, 16385))
			for j := range ms {
				ms[j] = abs.V{"r": true, "ecn": 0, "ato": j % 8192}
			}
			v["blocks"] = abs.L{abs.V{"media": g.U32(), "begin": 5, "mbs": ms}}
		default:
			// TWCC with one delta moved to the edge of (or outside) its range
			st := make([]int, g.Pick(1, 2, 3, 5, 9))
			for j := range st {
				st[j] = g.Pick(1, 2)
			}
			v = g.TWCCFrom(st, 0)
			ds := v["deltas"].(abs.L)
			d := ds[g.R.Intn(len(ds))].(abs.V)
			if abs.I(d["t"]) == 1 {
				d["ticks"] = g.Pick(-2, -1, 0, 255, 256, 257, 100000)
			} else {
				d["ticks"] = g.Pick(-100000, -32769, -32768, 32767, 32768, 100000)
			}
			d["rem"] = 0
			d["big"] = g.Pick(0, 0, 0, 1, -1, 2, 1000)
		}
		s.Reset()
		s.Build(1, v)
		s.Marshal(1)
		s.Size(1)
		if s.Buf[1] != nil {
			s.Unmarshal(v["k"].(string), 1, 2)
			s.Datagram(1, 3)
		}
	}
}

func init() { drivers["cprand"] = driveCPRand }

// driveCPRand: random packet sequences of length 1..12, biased towards the
// compound grammar's boundary shapes (C11).
func driveCPRand(s *exec.State, g *gen.G, n int) {
	sdes := func(withCNAME bool) abs.V {
		t := 2
		if withCNAME {
			t = 1
		}
		items := abs.L{abs.V{"t": g.Pick(2, 3, 8, 0, 255), "text": g.Bytes(g.Int(0, 4))}}
		if withCNAME || g.Bool() {
			items = append(items, abs.V{"t": t, "text": g.Bytes(g.Int(0, 6))})
		}
		if g.Bool() {
			items[0], items[len(items)-1] = items[len(items)-1], items[0]
		}
		cs := abs.L{abs.V{"src": g.U32(), "items": items}}
		if g.R.Intn(3) == 0 {
			cs = append(abs.L{abs.V{"src": g.U32(), "items": abs.L{}}}, cs...)
		}
		return abs.V{"k": "SDES", "chunks": cs}
	}
	// several chunks with a CNAME each; the sources are drawn from the SSRCs already used by the
	// compound's earlier members (so that "the chunk of the sender" exists) and fresh ones
	sdesMulti := func(prev abs.L) abs.V {
		pool := abs.L{g.U32(), g.U32()}
		for _, p := range prev {
			if m, ok := p.(abs.V); ok {
				if x, ok := m["ssrc"]; ok {
					pool = append(pool, x)
				}
			}
		}
		nc := g.Int(2, 4)
		cs := make(abs.L, nc)
		for c := range cs {
			items := abs.L{}
			if g.R.Intn(3) == 0 {
				items = append(items, abs.V{"t": g.Pick(2, 6, 8), "text": g.Text(g.Int(0, 4))})
			}
			if g.R.Intn(4) != 0 {
				items = append(items, abs.V{"t": 1, "text": abs.L{65 + c, 64, 104}})
			}
			cs[c] = abs.V{"src": pool[g.R.Intn(len(pool))], "items": items}
		}
		return abs.V{"k": "SDES", "chunks": cs}
	}
	for i := 0; i < n; i++ {
		k := g.Pick(1, 2, 2, 3, 3, 4, 5, 6, 8, 12)
		pk := make(abs.L, 0, k)
		for j := 0; j < k; j++ {
			if j > 0 && g.R.Intn(5) == 0 {
				pk = append(pk, sdesMulti(pk))
				continue
			}
			if j > 1 && g.R.Intn(8) == 0 {
				// a compound inside the compound, once or - the same object - twice
				inner := abs.V{"k": "CP", "pkts": abs.L{g.RR(), abs.V{"k": "SDES", "chunks": abs.L{abs.V{"src": g.U32(), "items": abs.L{abs.V{"t": 1, "text": g.Bytes(g.Int(1, 5))}}}}}, g.PLI()}}
				pk = append(pk, inner)
				if g.Bool() {
					pk = append(pk, g.Of("BYE"), inner)
				}
				continue
			}
			if g.R.Intn(8) == 0 {
				// an opaque packet whose own header octets name a report or a description: it is a RawPacket
				// all the same (the grammar goes by what the member is, not by what its octets say)
				raws := [][]byte{{0x80, 201, 0, 1, 1, 2, 3, 4}, {0x80, 200, 0, 6, 1, 2, 3, 4, 0, 0, 0, 0, 0, 0, 0, 0, 0, 0, 0, 0, 0, 0, 0, 0, 0, 0, 0, 0},
					{0x81, 202, 0, 3, 1, 2, 3, 4, 1, 2, 97, 98, 0, 0, 0, 0}}
				r := raws[g.R.Intn(len(raws))]
				rb := make(abs.L, len(r))
				for q, x := range r {
					rb[q] = int(x)
				}
				pk = append(pk, abs.V{"k": "RAW", "bytes": rb})
				continue
			}
			switch {
			case j == 0 && g.R.Intn(8) != 0:
				if g.Bool() {
					pk = append(pk, g.SR())
				} else {
					pk = append(pk, g.RR())
				}
			case g.R.Intn(3) == 0:
				pk = append(pk, g.RR())
			case g.R.Intn(3) == 0:
				pk = append(pk, sdes(g.R.Intn(3) != 0))
			default:
				pk = append(pk, g.Of(g.Kinds()[g.R.Intn(len(gen.Kinds))]))
			}
		}
		scriptCP(s, pk)
	}
}

func init() {
	// random XR block sequences of up to 8 blocks (C15)
	drivers["xrrand"] = func(s *exec.State, g *gen.G, n int) {
		for i := 0; i < n; i++ {
			k := g.Pick(0, 1, 2, 3, 4, 5, 8)
			bs := make(abs.L, k)
			for j := range bs {
				bs[j] = g.XRBlock()
			}
			scriptRT(s, abs.V{"k": "XR", "sender": g.U32(), "blocks": bs})
		}
	}
}

// bigValues: values whose encoding is longer than 65535 octets, so that every
// decoder's 16-bit length arithmetic is crossed (DESIGN.md 3.5).
func bigValues(g *gen.G, all bool) []abs.V {
	unk := func(n int) abs.V {
		return abs.V{"k": "XR", "sender": g.U32(), "blocks": abs.L{abs.V{"bt": "unk", "type": 200, "ts": 165, "bytes": g.Bytes(n)}, abs.V{"bt": "rrt", "ntp": g.U64()}}}
	}
	fir := func(n int) abs.V {
		es := make(abs.L, n)
		for i := range es {
			es[i] = abs.V{"ssrc": abs.U32(uint32(i) * 2654435761), "seq": i % 256}
		}
		return abs.V{"k": "FIR", "sender": g.U32(), "media": g.U32(), "fir": es}
	}
	sr := g.SR()
	sr["ext"] = g.Bytes(65536 + 8)
	vs := []abs.V{unk(65532), sr, fir(8200)}
	if !all {
		return vs
	}
	rr := g.RR()
	rr["ext"] = g.Bytes(65533)
	app := g.APP()
	app["data"] = g.Bytes(65523)
	cs := make(abs.L, 31)
	for i := range cs {
		items := make(abs.L, 9)
		for j := range items {
			items[j] = abs.V{"t": 1 + j%8, "text": g.Bytes(255)}
		}
		cs[i] = abs.V{"src": g.U32(), "items": items}
	}
	sdes := abs.V{"k": "SDES", "chunks": cs}
	ccb := make(abs.L, 3)
	for i := range ccb {
		ms := make(abs.L, 16384)
		for j := range ms {
			ms[j] = abs.V{"r": true, "ecn": j % 4, "ato": j % 8192}
		}
		ccb[i] = abs.V{"media": g.U32(), "begin": 100 * i, "mbs": ms}
	}
	ccfb := abs.V{"k": "CCFB", "sender": g.U32(), "blocks": ccb, "ts": g.U32()}
	// (no TransportLayerCC here: its size is bounded by the 16-bit status count, and a feedback with tens of
	// thousands of deltas costs the specification's delta pass minutes per event; TWCC length-field
	// arithmetic is crossed by the length lies of the fault machine and of the fuzz driver instead)
	rle := make(abs.L, 32762)
	for i := range rle {
		rle[i] = (i*7 + 1) % 65536
	}
	xrrle := abs.V{"k": "XR", "sender": g.U32(), "blocks": abs.L{abs.V{"bt": "lrle", "t": 3, "ssrc": g.U32(), "bs": 1, "es": 2, "chunks": rle}, abs.V{"bt": "rrt", "ntp": g.U64()}}}
	dl := make(abs.L, 5462)
	for i := range dl {
		dl[i] = abs.V{"ssrc": abs.U32(uint32(i)), "lrr": g.U32(), "dlrr": g.U32()}
	}
	xrdlrr := abs.V{"k": "XR", "sender": g.U32(), "blocks": abs.L{abs.V{"bt": "dlrr", "reports": dl}, abs.V{"bt": "rrt", "ntp": g.U64()}}}
	raw := abs.V{"k": "RAW", "bytes": append(abs.L{128 + 7, 199, 65536 / 4 / 256, 65536 / 4 % 256}, g.Bytes(65536)...)}
	return append(vs, rr, app, sdes, ccfb, xrrle, xrdlrr, unk(65536), raw)
}

func init() {
	// n = 0: three kinds; n > 0: every kind that can exceed 65535 octets
	drivers["bigframes"] = func(s *exec.State, g *gen.G, n int) {
		for _, v := range bigValues(g, n > 0) {
			scriptRT(s, v)
			// a big frame followed by a small one (C06)
			b := encodeWith(v)
			if b != nil {
				scriptFrames(s, [][]byte{b, encodeWith(g.PLI())})
			}
		}
	}
	// big frames through every decoder (C01): the encodings, and the same with the
	// length field changed to wrap the 16-bit octet count
	drivers["bigdec"] = func(s *exec.State, g *gen.G, n int) {
		// TWCC feedback longer than 65,535 octets whose status chunks (not-received runs: no deltas to expand)
		// reach the octets around 65,534: cursors kept in 16 bits wrap there
		for _, nch := range []int{32757, 32758, 32760, 32770} {
			count := 2 * nch
			if count > 65535 {
				count = 65535
			}
			body := []byte{1, 2, 3, 4, 5, 6, 7, 8, 0, 1, byte(count >> 8), byte(count), 9, 9, 9, 1}
			body = append(body, rep([]byte{0x00, 0x02}, nch)...)
			// judged for panic, hang and allocation only (the event carries no decoded value: expanding 32,000
			// chunks in the specification takes TLC longer than a check may run)
			s.Reset()
			s.SetBuf(1, frame(205, 15, body))
			s.UnmarshalReuse("TWCC", []byte{0x8F, 205, 0, 5, 1, 2, 3, 4, 5, 6, 7, 8, 0, 1, 0, 1, 9, 9, 9, 1, 0x20, 1, 4, 0}, 1)
		}
		if n == 2 { // quick tier: the feedback above only
			return
		}
		for _, v := range bigValues(g, n > 0) {
			b := encodeWith(v)
			if b == nil {
				continue
			}
			scriptDec(s, b)
			for _, l := range []int{16383, 16384, 16385, 32768, 65535} {
				c := append([]byte(nil), b...)
				c[2], c[3] = byte(l>>8), byte(l)
				scriptDec(s, c)
			}
		}
	}
}

// frame wraps a body in a common header with the length field matching the size (body is padded to 32 bits).
func frame(pt, count int, body []byte) []byte {
	for len(body)%4 != 0 {
		body = append(body, 0)
	}
	n := (len(body)+4)/4 - 1
	return append([]byte{byte(0x80 | count&31), byte(pt), byte(n >> 8), byte(n)}, body...)
}

func rep(pat []byte, n int) []byte {
	out := make([]byte, 0, len(pat)*n)
	for i := 0; i < n; i++ {
		out = append(out, pat...)
	}
	return out
}

// amplifiers: small, correctly framed packets whose count, length and run fields claim as much as
// they can (the shapes an attacker uses to make a decoder allocate or loop): C01, C13, C14.
func amplifiers() [][]byte {
	var out [][]byte
	hdr := []byte{1, 2, 3, 4, 5, 6, 7, 8}
	// TWCC: large status counts with many run-length chunks of every symbol, and all-ones vector chunks
	for _, count := range []int{65535, 57345, 40000, 8191, 1000, 14, 2, 1} {
		for _, chunk := range [][]byte{{0x3F, 0xFF}, {0x5F, 0xFF}, {0x1F, 0xFF}, {0x7F, 0xFF}, {0x3F, 0xFE}, {0x20, 0x01}, {0xFF, 0xFF}, {0xBF, 0xFF}, {0x00, 0x00}} {
			for _, n := range []int{1, 8, 9, 20, 100, 600} {
				body := append(append([]byte(nil), hdr...), 0, 1, byte(count>>8), byte(count), 9, 9, 9, 1)
				body = append(body, rep(chunk, n)...)
				out = append(out, frame(205, 15, body))
			}
		}
	}
	// TWCC: runs that stop a few packets short of the status count, then a vector chunk whose 14 symbols carry a
	// 16-bit counter of processed packets past 65535 and back to a small number, many times over
	for _, short := range []int{6, 13, 1} {
		body := append(append([]byte(nil), hdr...), 0, 1, 0xFF, 0xFF, 9, 9, 9, 1)
		for cyc := 0; cyc < 80; cyc++ {
			body = append(body, rep([]byte{0x3F, 0xFF}, 7)...)
			last := 8198 - short // 7 * 8191 + last = 65535 - short
			body = append(body, 0x20|byte(last>>8), byte(last), 0x80, 0x00)
		}
		out = append(out, frame(205, 15, body))
	}
	// SDES: many empty items / many minimal chunks
	for _, n := range []int{16, 100, 700} {
		out = append(out, frame(202, 1, append([]byte{1, 2, 3, 4}, append(rep([]byte{1, 0}, n), 0)...)))
		out = append(out, frame(202, 31, rep([]byte{1, 2, 3, 4, 0, 0, 0, 0}, n/8+1)))
	}
	// XR: many header-only blocks of unknown and known types, blocks claiming the maximum length
	for _, bt := range []byte{0, 1, 3, 5, 9, 255} {
		for _, n := range []int{4, 64, 370} {
			out = append(out, frame(207, 0, append([]byte{1, 2, 3, 4}, rep([]byte{bt, 0, 0, 0}, n)...)))
		}
		out = append(out, frame(207, 0, append([]byte{1, 2, 3, 4, bt, 0, 0xFF, 0xFF}, rep([]byte{0xAA}, 40)...)))
	}
	// CCFB: num_reports claiming the maximum, many empty blocks
	for _, nr := range [][]byte{{0xFF, 0xFF}, {0x40, 0x00}, {0x3F, 0xFF}, {0, 0}} {
		out = append(out, frame(205, 11, append(append([]byte{1, 2, 3, 4, 5, 6, 7, 8, 0, 1}, nr...), rep([]byte{0x80, 1}, 20)...)))
	}
	out = append(out, frame(205, 11, append([]byte{1, 2, 3, 4}, append(rep([]byte{5, 6, 7, 8, 0, 1, 0, 0}, 150), 9, 9, 9, 9)...)))
	// REMB: more than 255 entries with the count octet equal to the number of entries modulo 256, and other mismatches
	for _, n := range []int{0, 1, 255, 256, 257, 300, 511, 512} {
		for _, c := range []int{n % 256, (n + 1) % 256, 255} {
			body := append([]byte{1, 2, 3, 4, 0, 0, 0, 0, 'R', 'E', 'M', 'B', byte(c), 0x18, 1, 2}, rep([]byte{9, 8, 7, 6}, n)...)
			out = append(out, frame(206, 15, body))
		}
	}
	// SR/RR/BYE with the maximal count and little content; long NACK/SLI/FIR lists
	out = append(out, frame(200, 31, rep([]byte{7}, 24+24)), frame(201, 31, rep([]byte{7}, 4+24)), frame(203, 31, rep([]byte{7}, 8)))
	for _, k := range [][2]int{{205, 1}, {205, 2}, {206, 4}} {
		out = append(out, frame(k[0], k[1], rep([]byte{0xFF, 0xFE, 0xFD, 0xFC}, 360)))
	}
	// datagrams of very many frames (a cap or a per-datagram table would show here): C06, C07
	pli := frame(206, 1, []byte{1, 2, 3, 4, 5, 6, 7, 8})
	for _, n := range []int{17, 33, 129, 150, 300} {
		dg := rep(pli, n)
		dg = append(dg, frame(210, 7, []byte{9, 9, 9, 9})...)
		out = append(out, dg)
	}
	out = append(out, rep([]byte{0x80, 199, 0, 0}, 600))
	return out
}

// repeated: datagrams made of many copies of one small valid packet (a per-packet cost that is
// harmless once becomes a per-datagram cost): up to about 60,000 octets each.
func repeated(g *gen.G) [][]byte {
	var out [][]byte
	var vals []abs.V
	for i := 0; i < 6; i++ { // feedback with a status count near 2^16 in a few dozen octets
		n := g.Pick(57340, 60000, 65528, 65534, 65535, 65535)
		st := make([]int, n)
		for j := n - g.Int(1, 3); j < n; j++ {
			st[j] = g.Pick(1, 2)
		}
		vals = append(vals, g.TWCCFrom(st, 1))
	}
	for _, k := range gen.Kinds {
		vals = append(vals, g.Of(k))
	}
	// the smallest attack-shaped frames (a status count of 1 or 65535 under one maximal chunk), many times over:
	// what one of them makes a decoder reserve is harmless once
	for _, b := range amplifiers() {
		if len(b) == 24 && b[1] == 205 && b[0]&31 == 15 && (b[14] == 0 && b[15] == 1 || b[14] == 0xFF && b[15] == 0xFF) {
			out = append(out, rep(b, 1000))
		}
	}
	for _, v := range vals {
		b := encodeWith(v)
		if len(b) == 0 || len(b) > 200 {
			continue
		}
		k := 60000 / len(b)
		if k > 130 {
			k = 130
		}
		out = append(out, rep(b, k))
	}
	return out
}

func init() {
	drivers["amplify"] = func(s *exec.State, g *gen.G, n int) {
		for _, b := range repeated(g) {
			scriptDgram(s, b)
		}
		entry := map[byte]string{200: "SR", 201: "RR", 202: "SDES", 203: "BYE", 207: "XR"}
		for _, b := range amplifiers() {
			e, ok := entry[b[1]]
			if !ok {
				switch {
				case b[1] == 205 && b[0]&31 == 15:
					e = "TWCC"
				case b[1] == 205 && b[0]&31 == 11:
					e = "CCFB"
				case b[1] == 205 && b[0]&31 == 1:
					e = "NACK"
				case b[1] == 205 && b[0]&31 == 2:
					e = "SLI"
				case b[1] == 206 && b[0]&31 == 15:
					e = "REMB"
				case b[1] == 206 && b[0]&31 == 4:
					e = "FIR"
				default:
					e = "RAW"
				}
			}
			scriptOwn(s, b, e)
		}
	}
}

func init() {
	// errpaths: a call that fails half-way, then the same successful call before and after it (C18: results do
	// not depend on what was called before; C03: the bytes after a failure are still right)
	drivers["errpaths"] = func(s *exec.State, g *gen.G, n int) {
		bad := func() abs.V {
			switch g.R.Intn(4) {
			case 0:
				return abs.V{"k": "BYE", "srcs": g.U32s(2), "reason": g.Bytes(300)}
			case 1:
				return abs.V{"k": "SDES", "chunks": abs.L{abs.V{"src": g.U32(), "items": abs.L{abs.V{"t": 0, "text": abs.L{}}}}}}
			case 2:
				v := g.SR()
				v["reports"] = g.RBs(40)
				return v
			}
			v := g.APP()
			v["name"] = g.Bytes(3)
			return v
		}
		for i := 0; i < n; i++ {
			k := g.Pick(1, 2, 3)
			good := make(abs.L, k)
			for j := range good {
				good[j] = g.Any()
			}
			m := g.Pick(1, 2, 3, 4)
			fl := make(abs.L, m)
			for j := range fl {
				fl[j] = g.Any()
			}
			fl[g.R.Intn(m)] = bad() // the failing member in a random position (after 0..3 good ones)
			s.Reset()
			s.Build(6, abs.V{"k": "LIST", "pkts": good})
			s.Build(5, abs.V{"k": "LIST", "pkts": fl})
			s.Marshal(6)
			s.Marshal(5)
			s.Marshal(6)
			s.Marshal(6)
			if s.Buf[6] != nil {
				s.Datagram(6, 7)
			}
			// single packets: a failing Marshal between two good ones; a failing decode between two good ones
			s.Build(1, good[0])
			s.Build(2, bad())
			s.Marshal(1)
			s.Marshal(2)
			s.Marshal(1)
			if s.Buf[1] != nil {
				s.Datagram(1, 3)
				s.SetBuf(4, mutate(g, s.Buf[1][:len(s.Buf[1])/2]))
				s.Datagram(4, 8)
				s.Datagram(1, 3)
			}
		}
	}
}

// dict: every dictionary token (package dict) in every free-form octet field of every kind that has
// one, and written over every word of a small valid packet of every kind (C04, C07, C09, C17).
func init() {
	drivers["dict"] = func(s *exec.State, g *gen.G, n int) {
		s.Reset()
		s.Constants()
		toL := func(b []byte) abs.L {
			out := make(abs.L, len(b))
			for i, x := range b {
				out[i] = int(x)
			}
			return out
		}
		cat := func(xs ...abs.L) abs.L {
			var out abs.L
			for _, x := range xs {
				out = append(out, x...)
			}
			return out
		}
		abc := abs.L{97, 98, 99}
		for _, tk := range gen.Dict {
			t := toL(tk)
			texts := []abs.L{t, cat(t, abc), cat(abc, t), cat(t, t), cat(abs.L{len(t)}, t), cat(abs.L{len(t) + 1}, t), cat(t, abs.L{0})}
			for _, tx := range texts {
				for _, typ := range []int{1, 2, 7, 8} {
					scriptRT(s, abs.V{"k": "SDES", "chunks": abs.L{abs.V{"src": abs.L{1, 2, 3, 4}, "items": abs.L{abs.V{"t": typ, "text": tx}, abs.V{"t": 6, "text": abc}}}}})
				}
				scriptRT(s, abs.V{"k": "BYE", "srcs": abs.L{abs.L{1, 2, 3, 4}}, "reason": tx})
				scriptRT(s, abs.V{"k": "APP", "st": 1, "ssrc": abs.L{1, 2, 3, 4}, "name": abs.L{78, 65, 77, 69}, "data": tx})
			}
			if len(tk) == 4 {
				scriptRT(s, abs.V{"k": "APP", "st": 1, "ssrc": abs.L{1, 2, 3, 4}, "name": t, "data": abc})
			}
			// texts shaped like a CNAME (user@host) with the token in and after the host part
			uh := abs.L{117, 64, 104}
			for _, tx := range []abs.L{cat(uh, t), cat(uh, t, t), cat(abs.L{117, 64}, t, abs.L{104}), cat(abs.L{85, 64, 72}, t), cat(t, uh)} {
				sdes := abs.V{"k": "SDES", "chunks": abs.L{abs.V{"src": abs.L{1, 2, 3, 4}, "items": abs.L{abs.V{"t": 1, "text": tx}}},
					abs.V{"src": abs.L{0, 192, 255, 238}, "items": abs.L{abs.V{"t": 7, "text": abs.L{97, 98, 0}}}}}}
				scriptRT(s, sdes)
				if b := specSDES(sdes); b != nil {
					scriptDgram(s, b)
				}
			}
		}
		// identifier-like tokens (four printable characters) in one word of a small feedback packet while one other
		// word is changed as well: a dispatcher or decoder that looks at two words of the body to decide what it has
		var idents [][]byte
		for _, tk := range append(append([][]byte{}, gen.Dict...), []byte("ABCD"), []byte("XXXX")) {
			ok := len(tk) == 4
			for _, c := range tk {
				ok = ok && c >= 'A' && c <= 'Z'
			}
			if ok {
				idents = append(idents, tk)
			}
		}
		g3 := gen.New(11)
		for _, kind := range []string{"REMB", "FIR", "PLI", "NACK", "SLI", "RRR", "CCFB", "TWCC"} {
			var base []byte
			for try := 0; try < 50 && (base == nil || len(base) > 36); try++ {
				base = encodeWith(g3.Of(kind))
			}
			if base == nil {
				continue
			}
			for _, tk := range idents {
				for off := 4; off+4 <= len(base); off += 4 {
					for off2 := 4; off2+4 <= len(base); off2 += 4 {
						if off2 == off {
							continue
						}
						b := append([]byte(nil), base...)
						copy(b[off:], tk)
						if b[off2]|b[off2+1]|b[off2+2]|b[off2+3] == 0 {
							copy(b[off2:], []byte{1, 2, 3, 4})
						} else {
							copy(b[off2:], []byte{0, 0, 0, 0})
						}
						scriptOwn(s, b, kind)
					}
				}
			}
		}
		// two different values whose %v renderings coincide (a text that contains what the formatter puts between
		// two items), in one list, in both orders
		{
			txt := func(x string) abs.L { return toL([]byte(x)) }
			one := abs.V{"k": "SDES", "chunks": abs.L{abs.V{"src": abs.L{1, 2, 3, 4}, "items": abs.L{abs.V{"t": 1, "text": txt("a} {CNAME b")}}}}}
			two := abs.V{"k": "SDES", "chunks": abs.L{abs.V{"src": abs.L{1, 2, 3, 4}, "items": abs.L{abs.V{"t": 1, "text": txt("a")}, abs.V{"t": 1, "text": txt("b")}}}}}
			bye1 := abs.V{"k": "BYE", "srcs": abs.L{abs.L{0, 0, 0, 1}}, "reason": txt("x] [y")}
			rr := abs.V{"k": "RR", "ssrc": abs.L{1, 2, 3, 4}, "reports": abs.L{}, "ext": abs.L{}}
			scriptRT(s, abs.V{"k": "LIST", "pkts": abs.L{one, two}})
			scriptRT(s, abs.V{"k": "LIST", "pkts": abs.L{two, one, bye1}})
			scriptRT(s, abs.V{"k": "CP", "pkts": abs.L{rr, one, two}})
			scriptRT(s, abs.V{"k": "CP", "pkts": abs.L{rr, two, one}})
		}
		// two adjacent frames with the same body under different headers (every ordered pair of registered types)
		{
			hs := [][2]int{{200, 1}, {201, 1}, {202, 1}, {203, 7}, {204, 3}, {205, 1}, {205, 5}, {205, 11}, {205, 15}, {206, 1}, {206, 2}, {206, 4}, {206, 15}, {207, 0}, {199, 9}}
			bodies := [][]byte{rep([]byte{0, 0, 0, 1}, 7), {1, 2, 3, 4, 5, 6, 7, 8, 9, 10, 11, 12, 13, 14, 15, 16, 17, 18, 19, 20, 21, 22, 23, 24, 25, 26, 27, 28}}
			for _, body := range bodies {
				for _, a := range hs {
					for _, b := range hs {
						if a != b {
							scriptDgram(s, append(frame(a[0], a[1], body), frame(b[0], b[1], body)...))
						}
					}
				}
			}
		}
		// valid multi-octet text at many lengths: the number of characters and the number of octets differ by a
		// factor of two, three and four (a limit applied to one and a cut applied to the other)
		for _, ch := range []string{"\u00e9", "\u8a9e", "\U0001F600"} {
			for _, nchar := range []int{8, 16, 17, 20, 24, 31, 32, 33, 44, 48, 63, 64, 65, 85} {
				tx := toL([]byte(strings.Repeat(ch, nchar)))
				if len(tx) > 255 {
					continue
				}
				scriptRT(s, abs.V{"k": "SDES", "chunks": abs.L{abs.V{"src": abs.L{1, 2, 3, 4}, "items": abs.L{abs.V{"t": 1, "text": tx}, abs.V{"t": 7, "text": tx}}}}})
				scriptRT(s, abs.V{"k": "BYE", "srcs": abs.L{abs.L{1, 2, 3, 4}}, "reason": tx})
				scriptRT(s, abs.V{"k": "CP", "pkts": abs.L{abs.V{"k": "RR", "ssrc": abs.L{1, 2, 3, 4}, "reports": abs.L{}, "ext": abs.L{}},
					abs.V{"k": "SDES", "chunks": abs.L{abs.V{"src": abs.L{1, 2, 3, 4}, "items": abs.L{abs.V{"t": 1, "text": tx}}}}}, abs.V{"k": "BYE", "srcs": abs.L{abs.L{1, 2, 3, 4}}, "reason": tx}}})
			}
		}
		// texts that end in a multi-octet character cut short
		for _, sf := range dict.Suffixes() {
			for _, tx := range []abs.L{toL(sf), cat(abc, toL(sf)), cat(abs.L{117, 64, 104, 46}, toL(sf))} {
				for _, typ := range []int{1, 2, 8} {
					scriptRT(s, abs.V{"k": "SDES", "chunks": abs.L{abs.V{"src": abs.L{1, 2, 3, 4}, "items": abs.L{abs.V{"t": typ, "text": tx}}}}})
				}
				scriptRT(s, abs.V{"k": "BYE", "srcs": abs.L{abs.L{1, 2, 3, 4}}, "reason": tx})
			}
		}
		// different texts that collide under a standard 32-bit hash, in two chunks and in two items of one chunk
		for _, pr := range dict.Collisions() {
			a, b := toL([]byte(pr[0])), toL([]byte(pr[1]))
			scriptRT(s, abs.V{"k": "SDES", "chunks": abs.L{abs.V{"src": abs.L{1, 2, 3, 4}, "items": abs.L{abs.V{"t": 1, "text": a}}},
				abs.V{"src": abs.L{5, 6, 7, 8}, "items": abs.L{abs.V{"t": 1, "text": b}}}}})
			scriptRT(s, abs.V{"k": "SDES", "chunks": abs.L{abs.V{"src": abs.L{1, 2, 3, 4}, "items": abs.L{abs.V{"t": 2, "text": b}, abs.V{"t": 7, "text": a}}}}})
		}
		// overlays: tokens of up to 4 octets at every word of one small packet per kind
		g2 := gen.New(7)
		for _, kind := range g2.Kinds() {
			var base []byte
			for try := 0; try < 50; try++ { // the longest of 50 encodings that has at most 40 octets
				if b := encodeWith(g2.Of(kind)); b != nil && len(b) <= 40 && len(b) > len(base) {
					base = b
				}
			}
			if base == nil {
				continue
			}
			// the packet's own first word (its header) and its own second word repeated further down in its body
			for _, w := range [][]byte{base[0:4], base[4:8]} {
				for off := 8; off+4 <= len(base); off += 4 {
					b := append([]byte(nil), base...)
					copy(b[off:], w)
					scriptOwn(s, b, kind)
				}
			}
			for _, tk := range gen.Dict {
				if len(tk) > 4 || len(tk) < 2 {
					continue
				}
				for off := 4; off+len(tk) <= len(base); off += 4 {
					b := append([]byte(nil), base...)
					copy(b[off:], tk)
					scriptOwn(s, b, kind)
				}
			}
		}
	}
}

// soak: process-lifetime state (C01, C18: "the package keeps no mutable shared state"). For every kind,
// n distinct valid packets (distinct SSRCs, distinct texts) are decoded in this one process; a reference
// packet of the kind goes through the recorded, judged script before and after, and so does every 5000th
// packet of the stream. A call that stops returning after the Nth distinct input ends the run as a hang.
func init() {
	drivers["soak"] = func(s *exec.State, g *gen.G, n int) {
		stamp := func(v abs.V, i int) {
			id := abs.U32(uint32(i)*2654435761 + 12345)
			for _, f := range []string{"ssrc", "sender", "media"} {
				if _, ok := v[f]; ok {
					v[f] = id
				}
			}
			txt := abs.L{}
			for _, c := range fmt.Sprintf("u%07x@h", i) {
				txt = append(txt, int(c))
			}
			switch v["k"] {
			case "SDES":
				cs := abs.List(v["chunks"])
				if len(cs) > 30 {
					cs = cs[:30]
				}
				v["chunks"] = append(abs.L{abs.V{"src": id, "items": abs.L{abs.V{"t": 1, "text": txt}, abs.V{"t": 2 + i%7, "text": txt}}}}, cs...)
			case "BYE":
				v["reason"] = txt
			case "APP":
				v["data"] = txt
			}
		}
		kinds := append([]string{}, g.Kinds()...)
		for _, kind := range kinds {
			var ref []byte
			for try := 0; try < 50 && ref == nil; try++ {
				ref = encodeWith(g.Of(kind))
			}
			if ref == nil {
				continue
			}
			scriptOwn(s, ref, kind)
			budget := n
			switch kind {
			case "TWCC", "CCFB", "XR":
				budget = n / 10 // their lists cannot be cut without recomputing dependent fields
			}
			for i := 0; i < budget; i++ {
				v := g.Of(kind)
				for _, f := range []string{"reports", "chunks", "srcs", "nacks", "sli", "fir", "ssrcs"} {
					if l, ok := v[f].(abs.L); ok && len(l) > 2 {
						v[f] = l[:2]
					}
				}
				stamp(v, i)
				b := encodeWith(v)
				if b == nil {
					continue
				}
				if s.QuietDecode(kind, b, func() string { return fmt.Sprintf("soak: %s packet number %d of this process: %v", kind, i, b) }) || i%5000 == 4999 {
					scriptOwn(s, b, kind)
				}
			}
			// the reference packet again, marked so that it is not taken for a duplicate of the first case
			scriptOwn(s, ref, kind)
			s.SetBuf(9, []byte("after soak "+kind))
		}
	}
}

// sizes: thresholds in the MIDDLE of the range (C03, C05, C07, C08, C01): list lengths next to every power of
// two from 8 to 1024, encodings whose size passes 1024, 1500, 2048 and 4096 octets one octet (or one word) at
// a time, and TWCC feedback whose received packets are described by two runs that meet next to such a length.
func init() {
	drivers["sizes"] = func(s *exec.State, g *gen.G, n int) {
		lens := []int{7, 8, 9, 15, 16, 17, 31, 32, 33, 63, 64, 65, 127, 128, 129, 255, 256, 257, 511, 512, 513, 1023, 1024, 1025}
		u32s := func(k int) abs.L { return g.U32s(k) }
		for _, l := range lens {
			if l <= 31 {
				scriptRT(s, abs.V{"k": "SR", "ssrc": g.U32(), "ntp": g.U64(), "rtp": g.U32(), "pc": g.U32(), "oc": g.U32(), "reports": g.RBs(l), "ext": abs.L{}})
				scriptRT(s, abs.V{"k": "RR", "ssrc": g.U32(), "reports": g.RBs(l), "ext": abs.L{}})
				scriptRT(s, abs.V{"k": "BYE", "srcs": u32s(l), "reason": abs.L{}})
				cs := make(abs.L, l)
				for i := range cs {
					cs[i] = abs.V{"src": g.U32(), "items": abs.L{abs.V{"t": 1, "text": g.Bytes(i % 5)}}}
				}
				scriptRT(s, abs.V{"k": "SDES", "chunks": cs})
				fe := make(abs.L, l)
				for i := range fe {
					fe[i] = abs.V{"ssrc": g.U32(), "seq": g.U8()}
				}
				scriptRT(s, abs.V{"k": "FIR", "sender": g.U32(), "media": g.U32(), "fir": fe})
			}
			if l <= 255 {
				scriptRT(s, abs.V{"k": "REMB", "sender": g.U32(), "br": g.Float(), "ssrcs": u32s(l)})
				its := make(abs.L, 1)
				its[0] = abs.V{"t": 1, "text": g.Bytes(l)}
				scriptRT(s, abs.V{"k": "SDES", "chunks": abs.L{abs.V{"src": g.U32(), "items": its}}})
				scriptRT(s, abs.V{"k": "BYE", "srcs": u32s(1), "reason": g.Bytes(l)})
			}
			ns := make(abs.L, l)
			for i := range ns {
				ns[i] = abs.V{"pid": (100*i + 7) % 65536, "blp": g.U16()}
			}
			scriptRT(s, abs.V{"k": "NACK", "sender": g.U32(), "media": g.U32(), "nacks": ns})
			es := make(abs.L, l)
			for i := range es {
				es[i] = abs.V{"first": g.R.Intn(8192), "number": g.R.Intn(8192), "pic": g.R.Intn(64)}
			}
			scriptRT(s, abs.V{"k": "SLI", "sender": g.U32(), "media": g.U32(), "sli": es})
			// XR: that many blocks, and one block with that many elements
			bl := make(abs.L, l)
			for i := range bl {
				bl[i] = abs.V{"bt": "rrt", "ntp": g.U64()}
			}
			scriptRT(s, abs.V{"k": "XR", "sender": g.U32(), "blocks": bl})
			rs := make(abs.L, l)
			for i := range rs {
				rs[i] = abs.V{"ssrc": g.U32(), "lrr": g.U32(), "dlrr": g.U32()}
			}
			ch := make(abs.L, l+l%2)
			for i := range ch {
				ch[i] = g.U16()
			}
			scriptRT(s, abs.V{"k": "XR", "sender": g.U32(), "blocks": abs.L{abs.V{"bt": "dlrr", "reports": rs},
				abs.V{"bt": "lrle", "t": 0, "ssrc": g.U32(), "bs": 1, "es": 2, "chunks": ch}, abs.V{"bt": "prt", "t": 0, "ssrc": g.U32(), "bs": 1, "es": 2, "times": u32s(l)}}})
			// CCFB: one block with that many metric blocks
			mbs := make(abs.L, l)
			for i := range mbs {
				mbs[i] = abs.V{"r": true, "ecn": i % 4, "ato": (37 * i) % 8192}
			}
			scriptRT(s, abs.V{"k": "CCFB", "sender": g.U32(), "ts": g.U32(), "blocks": abs.L{abs.V{"media": g.U32(), "begin": 5, "mbs": mbs}}})
			// TWCC: l received packets as one run, and as two runs that meet next to l
			for _, a := range []int{0, 1, l - 100, l - 1} {
				if a < 0 || a >= l {
					continue
				}
				chunks := abs.L{}
				if a > 0 {
					chunks = append(chunks, abs.V{"ct": "rl", "typ": 0, "sym": 1, "run": a})
				}
				chunks = append(chunks, abs.V{"ct": "rl", "typ": 0, "sym": 1, "run": l - a})
				ds := make(abs.L, l)
				for i := range ds {
					ds[i] = abs.V{"t": 1, "ticks": (i*7 + 1) % 256, "rem": 0, "big": 0}
				}
				v := abs.V{"k": "TWCC", "sender": g.U32(), "media": g.U32(), "base": 100, "count": l, "ref": abs.L{0, 1, 2, 3}, "fb": 1,
					"chunks": chunks, "deltas": ds}
				size := 20 + 2*len(chunks) + l
				pad := (4 - size%4) % 4
				v["hdr"] = abs.V{"p": pad > 0, "c": 15, "t": 205, "len": (size+pad)/4 - 1}
				scriptRT(s, v)
				// ... and the same with one more run that claims statuses beyond l
				if a > 0 {
					b := encodeWith(v)
					if b != nil {
						scriptTW(s, b)
					}
				}
			}
		}
		// a datagram that could also be read as "16-bit length, then that many octets" (RFC 4571 stream framing):
		// its first two octets, taken as a number, are its total length minus two
		for _, first := range []abs.V{
			{"k": "PLI", "sender": g.U32(), "media": g.U32()},
			{"k": "SDES", "chunks": abs.L{abs.V{"src": g.U32(), "items": abs.L{abs.V{"t": 1, "text": abs.L{97}}}}}},
			{"k": "FIR", "sender": g.U32(), "media": g.U32(), "fir": abs.L{abs.V{"ssrc": g.U32(), "seq": 1}}},
			{"k": "RAW", "bytes": abs.L{0x85, 210, 0, 1, 9, 9, 9, 9}},
		} {
			fb := encodeWith(first)
			if fb == nil {
				continue
			}
			total := int(fb[0])<<8 | int(fb[1]) + 2
			fill := total - len(fb) - 12 // an APP packet with that much data completes the datagram
			if fill < 0 || fill%4 != 0 {
				continue
			}
			scriptRT(s, abs.V{"k": "LIST", "pkts": abs.L{first, abs.V{"k": "APP", "st": 1, "ssrc": g.U32(), "name": abs.L{78, 65, 77, 69}, "data": g.Bytes(fill)}}})
		}
		// encodings that pass a size threshold octet by octet (free-form fields) or word by word
		for _, t := range []int{1024, 1500, 2048, 4096} {
			for d := -16; d <= 4; d++ {
				scriptRT(s, abs.V{"k": "APP", "st": 1, "ssrc": g.U32(), "name": abs.L{78, 65, 77, 69}, "data": g.Bytes(t - 12 + d)})
				if d%4 == 0 {
					scriptRT(s, abs.V{"k": "SR", "ssrc": g.U32(), "ntp": g.U64(), "rtp": g.U32(), "pc": g.U32(), "oc": g.U32(), "reports": g.RBs(1), "ext": g.Bytes(t - 52 + d)})
					scriptRT(s, abs.V{"k": "XR", "sender": g.U32(), "blocks": abs.L{abs.V{"bt": "unk", "type": 77, "ts": 1, "bytes": g.Bytes(t - 12 + d)}}})
				}
				scriptRT(s, abs.V{"k": "RR", "ssrc": g.U32(), "reports": g.RBs(1), "ext": g.Bytes(t - 32 + d)})
			}
		}
	}
}

// specSDES encodes an SDES value by hand (RFC 3550 6.5), so that a text reaches the decoders as a sender
// other than this library would put it on the wire (C09 needs input the library's Marshal did not shape).
func specSDES(v abs.V) []byte {
	var body []byte
	cs := abs.List(v["chunks"])
	if len(cs) > 31 {
		return nil
	}
	for _, c := range cs {
		cm := c.(abs.V)
		ch := abs.GoBytes(cm["src"])
		for _, it := range abs.List(cm["items"]) {
			im := it.(abs.V)
			tx := abs.GoBytes(im["text"])
			if len(tx) > 255 {
				return nil
			}
			ch = append(ch, byte(abs.I(im["t"])), byte(len(tx)))
			ch = append(ch, tx...)
		}
		ch = append(ch, 0)
		for len(ch)%4 != 0 {
			ch = append(ch, 0)
		}
		body = append(body, ch...)
	}
	return frame(202, len(cs), body)
}
