package main

import (
	"github.com/pion/rtcp"
	"time"

	"bufio"
	"encoding/json"
	"fmt"
	"os"
	"strings"

	"verif/harness/abs"
	"verif/harness/exec"
	"verif/harness/gen"
)

func has(s *exec.State, h int) bool { _, ok := s.Pk[h]; return ok }

// stringOf formats the packet unless its encoding is very large: the
// library's formatters build their result by repeated string concatenation
// and take seconds on lists of tens of thousands of elements (observed: 14 s
// for an XR block of 32,762 chunks). No property bounds formatting time, so
// such values are not formatted (DESIGN.md 3.4).
func stringOf(s *exec.State, h, bufh int) {
	if len(s.Buf[bufh]) <= 20000 && s.Weight(h) <= 20000 {
		s.String(h)
	}
}

// scriptRT: a value through every API (C02 C03 C05 C10 C17 C18).
func scriptRT(s *exec.State, v abs.V) {
	kind := v["k"].(string)
	s.Reset()
	s.Build(1, v)
	s.Size(1) // before Marshal: nothing Marshal leaves behind may be needed for the size
	s.Marshal(1)
	s.Size(1)
	s.Header(1)
	s.LenAcc(1)
	if kind == "REMB" {
		n := len(s.Buf[1])
		if n == 0 {
			n = 20
		}
		s.MarshalTo(1, n)
		s.MarshalTo(1, n+5)
		s.MarshalTo(1, n-1)
	}
	s.Dest(1)
	stringOf(s, 1, 1)
	if kind != "LIST" {
		s.Unmarshal(kind, 1, 2)
		if has(s, 2) {
			s.Dest(2)
			s.Marshal(2)
			s.Size(2)
			stringOf(s, 2, 1)
			if s.Buf[2] != nil {
				s.Unmarshal(kind, 2, 5)
			}
			// the caller edits the decoded packet; the same octets decoded afterwards give what they gave before
			s.Scribble(2)
			s.Unmarshal(kind, 1, 7)
		}
		// the type's own decoder handed the rest of a datagram as well: the packet followed by another one
		if s.Buf[1] != nil && kind != "RAW" && kind != "CP" && len(s.Buf[1]) < 4000 {
			s.SetBuf(8, append(append([]byte(nil), s.Buf[1]...), 0x81, 206, 0, 2, 9, 8, 7, 6, 5, 4, 3, 2))
			s.Unmarshal(kind, 8, 9)
		}
	}
	s.Datagram(1, 3)
	if has(s, 3) {
		s.Marshal(3)
	}
}

// scriptDec: a byte string through every decode entry point, with the C09
// follow-up (marshal, decode again) for whatever is accepted.
func scriptDec(s *exec.State, b []byte) {
	s.Reset()
	s.SetBuf(1, b)
	s.Datagram(1, 4)
	dh := 0
	if has(s, 4) {
		dh = 4
		stringOf(s, 4, 1)
		s.Dest(4)
		s.Marshal(4)
		if s.Buf[4] != nil {
			s.Datagram(4, 5)
			if has(s, 5) {
				s.Marshal(5)
			}
		}
	}
	for _, entry := range exec.Entries {
		if entry == "CP" {
			s.UnmarshalRef(entry, 1, 2, dh)
		} else {
			s.Unmarshal(entry, 1, 2)
		}
		if has(s, 2) {
			stringOf(s, 2, 1)
			s.Marshal(2)
			if s.Buf[2] != nil && entry != "CP" {
				s.Unmarshal(entry, 2, 3)
			}
			// what the caller may do with the decoded value must not reach its other parts
			if entry != "CP" && entry != "RAW" {
				s.Scribble(2)
			}
		}
	}
	for _, u := range exec.Units {
		s.UnitDecode(u, 1)
		s.UnitDecodeInto(u, unitPrev[u], 1)
	}
	// the same bytes into receivers that have decoded something before (C01: no panic)
	for _, entry := range exec.Entries {
		if firsts := reuseSeeds()[entry]; len(firsts) > 0 {
			s.UnmarshalReuse(entry, firsts[len(b)%len(firsts)], 1)
		}
	}
}

// unitPrev: for every exported sub-structure a valid encoding that a reused value may have decoded before.
var unitPrev = map[string][]byte{
	"hdr":   {0xA5, 203, 0x12, 0x34},
	"rb":    {1, 2, 3, 4, 200, 0, 1, 2, 9, 8, 7, 6, 0, 0, 1, 0, 5, 5, 5, 5, 6, 6, 6, 6},
	"chunk": {9, 9, 9, 9, 1, 3, 'a', 'b', 'c', 2, 1, 'x', 0, 0, 0, 0},
	"item":  {1, 3, 'a', 'b', 'c'},
	"rl":    {0x3F, 0xFF},
	"sv":    {0xE6, 0xB1},
	"delta": {0x81, 0x02},
}

var reuseSeedCache map[string][][]byte

// reuseSeeds: for every kind a few valid packets with long lists (what a reused receiver may still hold).
func reuseSeeds() map[string][][]byte {
	if reuseSeedCache != nil {
		return reuseSeedCache
	}
	g := gen.New(12345)
	m := map[string][][]byte{}
	for _, k := range gen.Kinds {
		for i := 0; i < 40 && len(m[k]) < 3; i++ {
			if b := encodeWith(g.Of(k)); len(b) >= 24 {
				m[k] = append(m[k], b)
			}
		}
	}
	reuseSeedCache = m
	return m
}

// scriptDgram: datagram-only decode with the C09 follow-up.
func scriptDgram(s *exec.State, b []byte) {
	s.Reset()
	s.SetBuf(1, b)
	s.Datagram(1, 4)
	if has(s, 4) {
		stringOf(s, 4, 1)
		s.Marshal(4)
		if s.Buf[4] != nil {
			s.Datagram(4, 5)
		}
	}
}

func parseJSONLine(line string) (abs.V, error) {
	d := json.NewDecoder(strings.NewReader(line))
	d.UseNumber()
	var raw any
	if err := d.Decode(&raw); err != nil {
		return nil, err
	}
	return conv(raw).(abs.V), nil
}

func conv(x any) any {
	switch t := x.(type) {
	case map[string]any:
		out := abs.V{}
		for k, v := range t {
			out[k] = conv(v)
		}
		return out
	case []any:
		out := make(abs.L, len(t))
		for i, v := range t {
			out[i] = conv(v)
		}
		return out
	case json.Number:
		n, err := t.Int64()
		if err != nil {
			panic(err)
		}
		return int(n)
	}
	return x
}

// replay executes behaviours emitted by TLC (one JSON object per line:
// {"script": "rt", "v": ...} or {"script": "dec", "bytes": [...]}).
func replayFile(s *exec.State, in string) int {
	f, err := os.Open(in)
	if err != nil {
		panic(err)
	}
	defer f.Close()
	sc := bufio.NewScanner(f)
	sc.Buffer(make([]byte, 1<<20), 1<<28)
	n := 0
	for sc.Scan() {
		line := strings.TrimSpace(sc.Text())
		if line == "" {
			continue
		}
		rec, err := parseJSONLine(line)
		if err != nil {
			panic(fmt.Sprintf("replay: bad line %q: %v", line[:min(len(line), 80)], err))
		}
		runItem(s, rec)
		n++
	}
	return n
}

func runItem(s *exec.State, rec abs.V) {
	switch rec["script"] {
	case "rt":
		scriptRT(s, rec["v"].(abs.V))
	case "dec":
		scriptDec(s, abs.GoBytes(rec["bytes"]))
	case "dgram":
		scriptDgram(s, abs.GoBytes(rec["bytes"]))
	default:
		if f, ok := extraScripts[fmt.Sprint(rec["script"])]; ok {
			f(s, rec)
			return
		}
		panic(fmt.Sprintf("replay: unknown script %v", rec["script"]))
	}
}

// scriptCP: a packet sequence as CompoundPacket through Validate, CNAME,
// Marshal, MarshalSize, DestinationSSRC, String and Unmarshal (C11).
func scriptCP(s *exec.State, pkts abs.L) {
	s.Reset()
	s.Build(1, abs.V{"k": "CP", "pkts": pkts})
	s.Validate(1)
	s.CNAME(1)
	s.Marshal(1)
	s.Size(1)
	s.Dest(1)
	s.String(1)
	s.Build(2, abs.V{"k": "LIST", "pkts": pkts})
	s.Marshal(2)
	if s.Buf[2] != nil && len(s.Buf[2]) > 0 {
		dh := 0
		s.Datagram(2, 4)
		if has(s, 4) {
			dh = 4
		}
		s.UnmarshalRef("CP", 2, 3, dh)
		if has(s, 3) {
			s.Validate(3)
			s.CNAME(3)
			s.Dest(3)
		}
	}
}

var extraScripts = map[string]func(*exec.State, abs.V){
	"cp": func(s *exec.State, rec abs.V) { scriptCP(s, abs.List(rec["pkts"])) },
	"frames": func(s *exec.State, rec abs.V) {
		var frames [][]byte
		for _, f := range abs.List(rec["frames"]) {
			frames = append(frames, abs.GoBytes(f))
		}
		scriptFrames(s, frames)
	},
}

// scriptFrames: each frame alone, then the concatenation (C06 locality,
// all-or-nothing, split), then the C09 follow-up. At most 6 frames.
func scriptFrames(s *exec.State, frames [][]byte) {
	s.Reset()
	var whole []byte
	var parts []int
	for i, f := range frames {
		h := 10 + i
		s.SetBuf(h, f)
		s.Datagram(h, h)
		parts = append(parts, h)
		whole = append(whole, f...)
	}
	s.SetBuf(1, whole)
	s.DatagramParts(1, 4, parts)
	if has(s, 4) {
		s.Marshal(4)
		if s.Buf[4] != nil {
			s.Datagram(4, 5)
		}
	}
}

func min(a, b int) int {
	if a < b {
		return a
	}
	return b
}

var _ = gen.Kinds

func u16list(x any) []uint16 {
	var out []uint16
	for _, e := range abs.List(x) {
		out = append(out, uint16(abs.I(e)))
	}
	return out
}

// scriptNack: the pair builder on a list, then Range/PacketList on every pair built (C12).
func scriptNack(s *exec.State, seqs []uint16) {
	s.Reset()
	_, ps := s.NackPairs(seqs)
	for i, p := range ps {
		if i >= 4 {
			break
		}
		s.Ranges(p.PacketID, uint16(p.LostPackets))
		s.PacketLists(p.PacketID, []uint16{uint16(p.LostPackets)})
	}
}

func init() {
	extraScripts["nack"] = func(s *exec.State, rec abs.V) { scriptNack(s, u16list(rec["seqs"])) }
	extraScripts["pairs"] = func(s *exec.State, rec abs.V) {
		s.Reset()
		s.PacketLists(uint16(abs.I(rec["id"])), u16list(rec["bms"]))
	}
	extraOps["nackpairs"] = func(s *exec.State, ev abs.V) { s.NackPairs(u16list(ev["args"])) }
	extraOps["packetlists"] = func(s *exec.State, ev abs.V) { s.PacketLists(uint16(abs.I(ev["id"])), u16list(ev["args"])) }
	extraOps["ranges"] = func(s *exec.State, ev abs.V) { s.Ranges(uint16(abs.I(ev["pid"])), uint16(abs.I(ev["blp"]))) }
	drivers["nackrand"] = func(s *exec.State, g *gen.G, n int) {
		// arithmetic progressions that wind around the 16-bit ring and come back next to their start:
		// the m-th successor of the first number is d away from it although the numbers in between are not
		for _, m := range []int{15, 16, 17} {
			for _, d := range []int{m - 1, m, m + 1, 0, 1, 2} {
				var strides []int
				for st := 1; st < 65536; st++ {
					if (st*m-d)%65536 == 0 {
						strides = append(strides, st)
					}
				}
				for _, st := range strides {
					for _, ln := range []int{m + 1, m + 3} {
						for _, base := range []int{1000, 65530} {
							seqs := make([]uint16, ln)
							for j := range seqs {
								seqs[j] = uint16(base + j*st)
							}
							scriptNack(s, seqs)
						}
					}
				}
			}
		}
		// long lists: more pairs than fit one packet (253) or one doubling of a slice (256, 512, 1024), followed by
		// numbers that fall into the window of the pair opened just before, of the first pair and of a middle one
		for _, k := range []int{252, 253, 254, 255, 256, 257, 511, 512, 513, 1024, 1025} {
			for _, back := range []int{1, 2, k / 2, k} {
				for _, d := range []int{3, 16} {
					seqs := make([]uint16, 0, k+2)
					for j := 0; j < k; j++ {
						seqs = append(seqs, uint16(j*50))
					}
					seqs = append(seqs, uint16((k-back)*50+d))
					scriptNack(s, seqs)
				}
			}
		}
		// ascending steps (each below half the ring) that wind around the ring once or twice and end exactly where a
		// run of consecutive numbers of the same length would end, or one beside it
		for _, ln := range []int{4, 5, 8, 17, 18, 33} {
			for rep := 0; rep < 6; rep++ {
				for _, endoff := range []int{ln - 1, ln, ln - 2} {
					winds := 1 + rep%2
					total := 65536*winds + endoff
					seqs := []uint16{uint16(g.U16())}
					left := total
					for j := 1; j < ln; j++ {
						rem := ln - j // steps still to take, including this one
						lo := left - 32767*(rem-1)
						if lo < 1 {
							lo = 1
						}
						hi := left - (rem - 1)
						if hi > 32767 {
							hi = 32767
						}
						if lo > hi {
							break
						}
						st := lo + g.R.Intn(hi-lo+1)
						if rem == 1 {
							st = left
						}
						left -= st
						seqs = append(seqs, seqs[len(seqs)-1]+uint16(st))
					}
					if len(seqs) == ln {
						scriptNack(s, seqs)
					}
				}
			}
		}
		// lists longer than the ring of sequence numbers: the whole ring from some start plus a few repeats
		for _, start := range []int{1000} {
			seqs := make([]uint16, 0, 65540)
			for j := 0; j < 65536; j++ {
				seqs = append(seqs, uint16(start+j))
			}
			seqs = append(seqs, uint16(start), uint16(start+5))
			scriptNack(s, seqs)
		}
		for i := 0; i < n; i++ {
			if i%6 == 5 {
				// a progression with an arbitrary stride
				st := g.Pick(g.U16(), 4097, 8193, 4095, 3855, 21845, 32769, g.R.Intn(65536))
				seqs := make([]uint16, g.Pick(5, 17, 18, 33, 40))
				base := g.U16()
				for j := range seqs {
					seqs[j] = uint16(base + j*st)
				}
				scriptNack(s, seqs)
				continue
			}
			k := g.Pick(0, 1, 2, 3, 5, 8, 17, 33, 64)
			seqs := make([]uint16, k)
			base := g.U16()
			for j := range seqs {
				switch g.R.Intn(4) {
				case 0:
					seqs[j] = uint16(g.U16())
				case 1:
					seqs[j] = uint16(base + g.Int(0, 40))
				default:
					if j > 0 {
						seqs[j] = seqs[j-1] + uint16(g.Pick(0, 1, 1, 2, 15, 16, 17, 18))
					} else {
						seqs[j] = uint16(base)
					}
				}
			}
			scriptNack(s, seqs)
			if i%8 == 0 {
				s.Ranges(uint16(g.U16()), uint16(g.U16()))
			}
		}
	}
}

// scriptTW: a TWCC encoding through its own decoder, the datagram decoder,
// and its own decoder again with junk after the declared length (C13).
func scriptTW(s *exec.State, b []byte) {
	s.Reset()
	s.SetBuf(1, b)
	s.Unmarshal("TWCC", 1, 2)
	if has(s, 2) {
		s.Marshal(2)
		s.String(2)
	}
	s.Datagram(1, 4)
	s.SetBuf(6, append(append([]byte(nil), b...), 0xFF, 0x01, 0x80, 0x7F, 0xFF))
	s.UnmarshalFull("TWCC", 6, 7, 0, 2, 1)
	s.SetBuf(8, append(append([]byte(nil), b...), 0x00, 0x00))
	s.UnmarshalFull("TWCC", 8, 9, 0, 2, 1)
}

func init() {
	extraScripts["tw"] = func(s *exec.State, rec abs.V) { scriptTW(s, abs.GoBytes(rec["bytes"])) }
	drivers["twccfuzz"] = func(s *exec.State, g *gen.G, n int) {
		for i := 0; i < n; i++ {
			b := encodeWith(g.TWCC())
			for k := g.Pick(0, 0, 1, 1, 2); k > 0; k-- {
				b = mutate(g, b)
			}
			scriptTW(s, b)
		}
	}
}

func intlist(x any) []int {
	var out []int
	for _, e := range abs.List(x) {
		out = append(out, abs.I(e))
	}
	return out
}

func init() {
	extraScripts["rembdec"] = func(s *exec.State, rec abs.V) {
		s.Reset()
		s.RembDecode(abs.I(rec["exp"]), intlist(rec["ms"]))
	}
	extraScripts["rembenc"] = func(s *exec.State, rec abs.V) {
		brs := abs.List(rec["brs"])
		for i := 0; i < len(brs); i += 64 {
			j := i + 64
			if j > len(brs) {
				j = len(brs)
			}
			s.Reset()
			s.RembEncode(brs[i:j])
		}
	}
	extraScripts["rembencrow"] = func(s *exec.State, rec abs.V) {
		c := abs.I(rec["c"])
		brs := make([]any, 256)
		for i := range brs {
			w := uint32(256*c + i)
			if rec["kind"] == "int" {
				brs[i] = abs.Float(float32(w))
			} else {
				brs[i] = abs.Float(abs.FloatFromBits(150<<23 | w<<6))
			}
		}
		s.Reset()
		s.RembEncode(brs)
	}
	extraOps["rembdec"] = func(s *exec.State, ev abs.V) { s.RembDecode(abs.I(ev["exp"]), intlist(ev["args"])) }
	extraOps["rembenc"] = func(s *exec.State, ev abs.V) { s.RembEncode(abs.List(ev["args"])) }
	// random wire pairs and float inputs (dense around powers of two and mantissa carries)
	drivers["rembrand"] = func(s *exec.State, g *gen.G, n int) {
		for i := 0; i < n; i++ {
			s.Reset()
			ms := make([]int, 64)
			for j := range ms {
				switch g.R.Intn(4) {
				case 0:
					ms[j] = 1 << uint(g.R.Intn(18))
				case 1:
					ms[j] = (1 << uint(1+g.R.Intn(18))) - 1
				default:
					ms[j] = g.R.Intn(1 << 18)
				}
			}
			s.RembDecode(g.R.Intn(64), ms)
			brs := make([]any, 64)
			for j := range brs {
				e := g.R.Intn(255)
				f := g.R.Intn(1 << 23)
				switch g.R.Intn(5) {
				case 0:
					f = g.Pick(0, 1, 2, 63, 64, 65, 0x7FFFFF, 0x7FFFFE, 0x7FFFC0, 0x7FFFBF, 0x7FFFE0)
				case 1:
					f = (g.R.Intn(1<<17) << 6) | g.Pick(0, 1, 32, 63) // around 18-bit representable values
				case 2:
					e = g.Pick(0, 1, 127, 143, 144, 145, 150, 206, 207, 208, 254)
				}
				brs[j] = abs.V{"s": 0, "e": e, "f": f}
				if j%8 == 7 {
					// negative bitrates of every magnitude, fractions between -1 and 0 and negative subnormals included
					brs[j] = abs.V{"s": 1, "e": g.Pick(0, 0, 1, 100, 126, 126, 127, 128, 150, 254, e), "f": g.Pick(0, 1, f)}
				}
			}
			s.RembEncode(brs)
			// SSRC lists of every length through the packet API
			if i%4 == 0 {
				v := g.REMB()
				v["ssrcs"] = g.U32s(g.R.Intn(256))
				scriptRT(s, v)
			}
		}
	}
}

func init() {
	extraScripts["utable"] = func(s *exec.State, rec abs.V) {
		s.Reset()
		if rec["unit"] == "rle" {
			s.RleTable(abs.I(rec["start"]))
		} else {
			s.UnitTable(rec["unit"].(string), abs.I(rec["start"]))
		}
	}
	extraOps["utable"] = func(s *exec.State, ev abs.V) { s.UnitTable(ev["entry"].(string), abs.I(ev["start"])) }
	extraOps["rletable"] = func(s *exec.State, ev abs.V) { s.RleTable(abs.I(ev["start"])) }
	extraOps["sweep"] = func(s *exec.State, ev abs.V) { s.Sweep(ev["entry"].(string), uint64(abs.I(ev["stride"]))) }
	// unit rejections and limits (C16): short and wrong-version headers, counts above 31,
	// short sub-structures; random unit values both ways
	drivers["units"] = func(s *exec.State, g *gen.G, n int) {
		s.Reset()
		for l := 0; l < 4; l++ {
			for _, first := range []int{0x00, 0x40, 0x80, 0xC0, 0xBF, 0x9F} {
				b := []byte{byte(first), 200, 0, 1}[:l]
				s.SetBuf(1, b)
				s.UnitDecode("hdr", 1)
			}
		}
		for _, v := range []int{0, 1, 3} {
			s.SetBuf(1, []byte{byte(v<<6 | 1), 201, 0, 7})
			s.UnitDecode("hdr", 1)
		}
		for c := 0; c < 256; c++ {
			s.UnitEncode("hdr", abs.V{"p": c%2 == 0, "c": c, "t": 200 + c%8, "len": c * 257 % 65536}, 1)
		}
		for l := 0; l < 26; l++ {
			s.SetBuf(1, randBytes(g, l))
			s.UnitDecode("rb", 1)
		}
		for l := 0; l <= 3; l++ {
			for k := 0; k < 4; k++ {
				s.SetBuf(1, randBytes(g, l))
				s.UnitDecode("rl", 1)
				s.UnitDecode("sv", 1)
				s.UnitDecode("delta", 1)
			}
		}
		for _, sym := range []int{0, 1, 2, 3, 4, 7} {
			for _, run := range []int{0, 1, 8191, 8192, 8193, 16384, 32768, 40000, 65535} {
				s.UnitEncode("rl", abs.V{"ct": "rl", "typ": 0, "sym": sym, "run": run}, 1)
			}
		}
		// a value that has decoded one unit decodes another (every ordered pair of a few words)
		svWords := [][]byte{{0x80, 0x00}, {0xBF, 0xFF}, {0xC0, 0x00}, {0xE6, 0xB1}, {0x95, 0x55}}
		for _, a := range svWords {
			for _, b := range svWords {
				s.SetBuf(1, b)
				s.UnitDecodeInto("sv", a, 1)
			}
		}
		chunks := [][]byte{{1, 1, 1, 1, 0, 0, 0, 0}, unitPrev["chunk"], {2, 2, 2, 2, 1, 1, 'q', 0}, {3, 3, 3, 3, 1, 0, 2, 0, 3, 1, 'z', 0}}
		for _, a := range chunks {
			for _, b := range chunks {
				s.SetBuf(1, b)
				s.UnitDecodeInto("chunk", a, 1)
			}
		}
		last := map[string][]byte{}
		again := func(u string) {
			if s.Buf[1] == nil {
				return
			}
			if p, ok := last[u]; ok {
				s.UnitDecodeInto(u, p, 1)
			}
			last[u] = append([]byte(nil), s.Buf[1]...)
		}
		for i := 0; i < n; i++ {
			if i%50 == 0 {
				s.Reset()
			}
			switch g.R.Intn(6) {
			case 0:
				s.UnitEncode("rb", g.RB(), 1)
				s.UnitDecode("rb", 1)
				again("rb")
			case 1:
				rb := g.RB()
				rb["lost"] = abs.L{g.Pick(0, 0, 1, 255), g.U8(), g.U8(), g.U8()}
				s.UnitEncode("rb", rb, 1)
			case 2:
				s.UnitEncode("item", g.Item(), 1)
				s.UnitDecode("item", 1)
				again("item")
			case 3:
				s.UnitEncode("chunk", g.Chunk(), 1)
				s.UnitDecode("chunk", 1)
				again("chunk")
			case 4:
				t := g.Pick(1, 2)
				tk := g.Pick(-40000, -32769, -32768, -1, 0, 1, 255, 256, 32767, 32768, 40000, g.Int(-33000, 33000))
				s.UnitEncode("delta", abs.V{"t": t, "ticks": tk, "rem": 0, "big": g.Pick(0, 0, 0, 1, -1, 65536)}, 1)
				if s.Buf[1] != nil {
					s.UnitDecode("delta", 1)
					again("delta")
				}
			case 5:
				s.UnitEncode("hdr", abs.V{"p": g.Bool(), "c": g.Pick(0, 1, 30, 31, 32, 33, 255, g.R.Intn(32)), "t": g.U8(), "len": g.U16()}, 1)
				if s.Buf[1] != nil {
					s.UnitDecode("hdr", 1)
					again("hdr")
				}
			}
		}
	}
	// n is the stride: 1 = exhaustive; the quick tier passes a large stride
	sweepSet := func(names []string, div map[string]uint64) func(*exec.State, *gen.G, int) {
		return func(s *exec.State, g *gen.G, n int) {
			s.Reset()
			for _, name := range names {
				d := div[name]
				if d == 0 {
					d = 1
				}
				s.Sweep(name, (uint64(n)+d-1)/d)
			}
		}
	}
	drivers["sweeps16"] = func(s *exec.State, g *gen.G, n int) {
		// the 2^24 domain is always swept completely; the 2^32 and 2^40 domains are strided in the quick tier, where
		// every value of each of their fields (with the rest of the word at three presets) is swept in addition
		sweepSet([]string{"loss24", "header32", "nack32", "sli32"}, map[string]uint64{"loss24": 1 << 20})(s, g, n)
		s.Sweep("fir40", uint64(n)*251*257+1)
		if n > 1 {
			for _, name := range []string{"header32-fields", "nack32-fields", "sli32-fields", "fir40-fields", "headerplausible"} {
				s.Sweep(name, 1)
			}
		}
	}
	drivers["sweeps12"] = sweepSet([]string{"nackequiv32"}, nil)
	drivers["sweeps14"] = sweepSet([]string{"rembscale24", "rembencint", "rembenctop18", "rembencscale", "rembencsat"},
		map[string]uint64{"rembscale24": 1 << 20, "rembencint": 16, "rembenctop18": 1 << 20, "rembencscale": 16, "rembencsat": 16})
}

func init() {
	extraOps["enumstring"] = func(s *exec.State, ev abs.V) { s.EnumStrings(ev["entry"].(string)) }
	// formatting of everything constructible (C17): enum tables, REMB bitrates at every
	// power of two and ten up to MaxFloat32, empty and maximal lists, unknown enum values
	drivers["strings"] = func(s *exec.State, g *gen.G, n int) {
		s.Reset()
		for _, t := range []string{"PacketType", "SDESType", "BlockTypeType", "TTLorHopLimitType", "ChunkHi"} {
			s.EnumStrings(t)
		}
		// fields that hold wall-clock time, set to the time of the call and near it (a formatter that relates
		// them to the clock): NTP timestamps of sender reports and receiver reference time blocks
		for _, off := range []time.Duration{0, 200 * time.Microsecond, -200 * time.Microsecond, time.Second, -time.Second, time.Hour, -24 * time.Hour} {
			for rep := 0; rep < 3; rep++ {
				zero := abs.U64(0)
				s.Reset()
				s.BuildNow(1, abs.V{"k": "SR", "ssrc": g.U32(), "ntp": zero, "rtp": g.U32(), "pc": g.U32(), "oc": g.U32(), "reports": abs.L{}, "ext": abs.L{}}, off)
				s.String(1)
				s.BuildNow(2, abs.V{"k": "XR", "sender": g.U32(), "blocks": abs.L{abs.V{"bt": "rrt", "ntp": zero}}}, off)
				s.String(2)
				s.BuildNow(3, abs.V{"k": "CP", "pkts": abs.L{abs.V{"k": "SR", "ssrc": g.U32(), "ntp": zero, "rtp": g.U32(), "pc": g.U32(), "oc": g.U32(), "reports": abs.L{}, "ext": abs.L{}},
					abs.V{"k": "SDES", "chunks": abs.L{abs.V{"src": g.U32(), "items": abs.L{abs.V{"t": 1, "text": abs.L{97}}}}}}}}, off)
				s.String(3)
			}
		}
		for e := 0; e < 255; e++ { // every power of two, and just below the next one
			for _, f := range []int{0, 0x7FFFFF, 0x400000} {
				s.Reset()
				s.Build(1, abs.V{"k": "REMB", "sender": g.U32(), "br": abs.V{"s": 0, "e": e, "f": f}, "ssrcs": abs.L{}})
				s.String(1)
			}
		}
		p10 := float32(1)
		for k := 0; k < 39; k++ { // every power of ten up to MaxFloat32
			for _, x := range []float32{p10, p10 * 0.999, p10 * 9.99} {
				s.Reset()
				s.Build(1, abs.V{"k": "REMB", "sender": g.U32(), "br": abs.Float(x), "ssrcs": abs.L{}})
				s.String(1)
			}
			p10 *= 10
		}
		for i := 0; i < n; i++ {
			v := g.Any()
			switch g.R.Intn(6) {
			case 0: // out-of-range enum values and flags inside otherwise ordinary packets
				v = abs.V{"k": "SDES", "chunks": abs.L{abs.V{"src": g.U32(), "items": abs.L{abs.V{"t": g.U8(), "text": g.Bytes(g.Int(0, 300))}}}}}
			case 1:
				b := g.XRBlock()
				if b["bt"] == "ss" {
					b["toh"] = g.U8()
				}
				if b["bt"] == "unk" {
					b["bytes"] = g.Bytes(g.Int(0, 9))
				}
				v = abs.V{"k": "XR", "sender": g.U32(), "blocks": abs.L{b}}
			case 2:
				v = abs.V{"k": "RAW", "bytes": g.Bytes(g.Int(0, 12))}
			case 3:
				k := g.Pick(1, 3, 8)
				pk := make(abs.L, k)
				for j := range pk {
					pk[j] = g.Any()
				}
				v = abs.V{"k": "CP", "pkts": pk}
			}
			s.Reset()
			s.Build(1, v)
			s.String(1)
			s.String(1)
		}
	}
}

// scriptProg: a call history generated by TLC (Mc.tla, mode hist) on one value (C18).
func scriptProg(s *exec.State, v abs.V, ops []any) {
	kind := v["k"].(string)
	s.Reset()
	s.Build(1, v)
	for _, o := range ops {
		name, _ := o.(string)
		var arg any
		if m, ok := o.(abs.V); ok {
			name, _ = m["op"].(string)
			arg = m["v"]
		}
		switch name {
		case "rebuild1":
			if arg == nil {
				arg = altValue(v)
			}
			s.Rebuild(1, arg)
		case "marshal1":
			if has(s, 1) {
				s.Marshal(1)
			}
		case "size1":
			if has(s, 1) {
				s.Size(1)
			}
		case "dest1":
			if has(s, 1) {
				s.Dest(1)
			}
		case "string1":
			if has(s, 1) {
				s.String(1)
			}
		case "unmarshal12":
			s.Unmarshal(kind, 1, 2)
		case "unmarshal22":
			if has(s, 2) {
				s.UnmarshalInto(kind, 1, 2)
			}
		case "unmarshal11":
			s.UnmarshalInto(kind, 1, 1)
		case "datagram13":
			s.Datagram(1, 3)
		case "marshal2":
			if has(s, 2) {
				s.Marshal(2)
			}
		case "dest2":
			if has(s, 2) {
				s.Dest(2)
			}
		case "size2":
			if has(s, 2) {
				s.Size(2)
			}
		case "marshal3":
			if has(s, 3) {
				s.Marshal(3)
			}
		}
	}
}

func init() {
	extraScripts["prog"] = func(s *exec.State, rec abs.V) { scriptProg(s, rec["v"].(abs.V), abs.List(rec["ops"])) }
	// random longer histories with repeated calls (C18)
	drivers["histrand"] = func(s *exec.State, g *gen.G, n int) {
		names := []string{"marshal1", "size1", "dest1", "string1", "unmarshal12", "datagram13", "marshal2", "dest2", "marshal3", "rebuild1", "unmarshal22", "unmarshal11"}
		for i := 0; i < n; i++ {
			k := g.Int(4, 12)
			ops := make([]any, k)
			for j := range ops {
				ops[j] = names[g.R.Intn(len(names))]
			}
			v := g.Any()
			altGen = func() abs.V { return g.Of(v["k"].(string)) }
			scriptProg(s, v, ops)
		}
	}
}

// reuserand: receivers used more than once (C18, C02). For random pairs (v, w) of one kind: v is encoded
// and decoded into a fresh receiver, then the encoding of w - as it is, or damaged - is decoded into the
// same receiver, which is then used; and the encoding of v is decoded into the caller's packet holding w.
func init() {
	drivers["reuserand"] = func(s *exec.State, g *gen.G, n int) {
		kinds := append(append([]string{}, g.Kinds()...), "CP")
		for i := 0; i < n; i++ {
			kind := kinds[g.R.Intn(len(kinds))]
			mk := func() abs.V {
				if kind == "CP" {
					head := g.RR()
					if g.Bool() {
						head = g.SR()
					}
					pk := abs.L{head, abs.V{"k": "SDES", "chunks": abs.L{abs.V{"src": g.U32(), "items": abs.L{abs.V{"t": 1, "text": g.Bytes(g.Int(1, 6))}}}}}}
					for j := g.Int(0, 3); j > 0; j-- {
						pk = append(pk, g.Of([]string{"BYE", "PLI", "APP", "NACK", "FIR", "XR"}[g.R.Intn(6)]))
					}
					return abs.V{"k": "CP", "pkts": pk}
				}
				return g.Of(kind)
			}
			v, w := mk(), mk()
			s.Reset()
			s.Build(1, v)
			s.Marshal(1)
			if s.Buf[1] == nil {
				continue
			}
			if i%3 == 2 {
				// the caller's own packet as the receiver
				s.Rebuild(1, w)
				s.UnmarshalInto(kind, 1, 1)
				if has(s, 1) {
					s.Size(1)
					s.Dest(1)
					s.Marshal(1)
				}
				continue
			}
			s.Unmarshal(kind, 1, 2)
			if !has(s, 2) {
				continue
			}
			s.Dest(2)
			s.Marshal(2)
			s.Rebuild(1, w)
			s.Marshal(1)
			if s.Buf[1] == nil {
				continue
			}
			if i%3 == 1 {
				b := mutate(g, s.Buf[1])
				if g.Bool() {
					b = mutate(g, b)
				}
				s.SetBuf(1, b)
			}
			s.UnmarshalInto(kind, 1, 2)
			if has(s, 2) {
				s.Size(2)
				s.Dest(2)
				s.Marshal(2)
				if s.Buf[2] != nil && kind != "CP" {
					s.Unmarshal(kind, 2, 3)
				}
			}
		}
	}
}

// altValue: another value of the same kind for an in-place rebuild in random histories.
var altGen func() abs.V

func altValue(v abs.V) abs.V {
	if altGen != nil {
		return altGen()
	}
	return v
}

// scriptOwn: a framed packet through the datagram decoder (with the C09 follow-up) and through the
// decoder registered for its packet type only (cheaper than scriptDec; used for large crafted inputs).
func scriptOwn(s *exec.State, b []byte, entry string) {
	scriptDgram(s, b)
	s.Unmarshal(entry, 1, 2)
	if has(s, 2) {
		stringOf(s, 2, 1)
		s.Marshal(2)
	}
}

// scriptRecombine: decode a datagram, then marshal recombinations of the returned packets (reordered,
// subsets, repeated) and decode each result (C02: lists in order; C18: the packets are shared).
func scriptRecombine(s *exec.State, g *gen.G, b []byte) {
	s.Reset()
	s.SetBuf(1, b)
	s.Datagram(1, 2)
	ps, ok := s.Pk[2].([]rtcp.Packet)
	if !ok || len(ps) < 2 {
		return
	}
	n := len(ps)
	perms := [][]int{}
	rev := make([]int, n)
	for i := range rev {
		rev[i] = n - 1 - i
	}
	perms = append(perms, rev)
	if n >= 3 {
		perms = append(perms, []int{0, 2, 1}, []int{0, n - 1}, []int{1, 0, 0})
	}
	rnd := g.R.Perm(n)
	perms = append(perms, rnd)
	for i, p := range perms {
		h := 3 + i
		s.Pick(2, h, p)
		s.Marshal(h)
		if s.Buf[h] != nil && len(s.Buf[h]) > 0 {
			s.Datagram(h, 9)
		}
	}
	s.Marshal(2) // the original order still marshals to the same octets
}

func init() {
	drivers["recombine"] = func(s *exec.State, g *gen.G, n int) {
		for i := 0; i < n; i++ {
			k := g.Pick(2, 3, 3, 4, 5)
			var dg []byte
			for j := 0; j < k; j++ {
				v := g.Any()
				if g.R.Intn(3) == 0 {
					v = g.RAW()
				}
				dg = append(dg, encodeWith(v)...)
			}
			scriptRecombine(s, g, dg)
		}
	}
}
