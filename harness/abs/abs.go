// Package abs is the projection between real pion/rtcp structs and the
// abstract values of the TLA+ specification (spec/*.tla). It is the trusted
// base of the binding: plain field-by-field copies, no decoding logic.
//
// Representation (see DESIGN.md 2.1): byte strings are []int in 0..255,
// 32/64-bit fields are big-endian byte tuples, float32 is (s,e,f) of its
// IEEE-754 bits, a TWCC delta is (ticks, rem) with Delta = 250*ticks+rem.
package abs

import (
	"encoding/binary"
	"encoding/json"
	"fmt"
	"hash/fnv"
	"math"
	"reflect"

	"github.com/pion/rtcp"
)

// V is an abstract record.
type V = map[string]any

// L is an abstract sequence.
type L = []any

func U32(x uint32) L {
	return L{int(x >> 24), int(x >> 16 & 255), int(x >> 8 & 255), int(x & 255)}
}

func U64(x uint64) L {
	out := make(L, 8)
	for i := 0; i < 8; i++ {
		out[i] = int(x >> (56 - 8*uint(i)) & 255)
	}
	return out
}

func Bytes(b []byte) L {
	out := make(L, len(b))
	for i, x := range b {
		out[i] = int(x)
	}
	return out
}

func U32s(xs []uint32) L {
	out := make(L, len(xs))
	for i, x := range xs {
		out[i] = U32(x)
	}
	return out
}

func small(x int64) int {
	if x >= 1<<31 || x <= -(1<<31) {
		panic(fmt.Sprintf("abs: integer %d does not fit the specification's integer range", x))
	}
	return int(x)
}

func rb(r rtcp.ReceptionReport) V {
	return V{"ssrc": U32(r.SSRC), "fl": int(r.FractionLost), "lost": U32(r.TotalLost),
		"seq": U32(r.LastSequenceNumber), "jit": U32(r.Jitter), "lsr": U32(r.LastSenderReport), "dlsr": U32(r.Delay)}
}

func rbs(rs []rtcp.ReceptionReport) L {
	out := make(L, len(rs))
	for i, r := range rs {
		out[i] = rb(r)
	}
	return out
}

// RB exposes the reception-report projection for the sub-decoder entry point.
func RB(r rtcp.ReceptionReport) V { return rb(r) }

func Hdr(h rtcp.Header) V {
	return V{"p": h.Padding, "c": int(h.Count), "t": int(h.Type), "len": int(h.Length)}
}

func SDESItem(it rtcp.SourceDescriptionItem) V {
	return V{"t": int(it.Type), "text": Bytes([]byte(it.Text))}
}

func SDESChunk(c rtcp.SourceDescriptionChunk) V {
	items := make(L, len(c.Items))
	for j, it := range c.Items {
		items[j] = SDESItem(it)
	}
	return V{"src": U32(c.Source), "items": items}
}

func Float(f float32) V {
	b := math.Float32bits(f)
	return V{"s": int(b >> 31), "e": int(b >> 23 & 255), "f": int(b & 0x7FFFFF)}
}

// FloatBits exposes the IEEE-754 bits of a float32.
func FloatBits(f float32) uint32 { return math.Float32bits(f) }

func FloatFromBits(b uint32) float32 { return math.Float32frombits(b) }

func RunLength(c *rtcp.RunLengthChunk) V {
	return V{"ct": "rl", "typ": int(c.Type), "sym": int(c.PacketStatusSymbol), "run": int(c.RunLength)}
}

func StatusVector(c *rtcp.StatusVectorChunk) V {
	syms := make(L, len(c.SymbolList))
	for i, s := range c.SymbolList {
		syms[i] = int(s)
	}
	return V{"ct": "sv", "typ": int(c.Type), "ss": int(c.SymbolSize), "syms": syms}
}

func Delta(d *rtcp.RecvDelta) V {
	q := d.Delta / 250
	lo := int64(int32(q)) // low 32 bits of the tick count, signed
	return V{"t": int(d.Type), "ticks": small(lo), "rem": small(d.Delta % 250), "big": small((q - lo) >> 32)}
}

func chunk(c rtcp.PacketStatusChunk) V {
	switch x := c.(type) {
	case *rtcp.RunLengthChunk:
		return RunLength(x)
	case *rtcp.StatusVectorChunk:
		return StatusVector(x)
	}
	return V{"ct": "other"}
}

func xrBlock(b rtcp.ReportBlock) V {
	chunks := func(cs []rtcp.Chunk) L {
		out := make(L, len(cs))
		for i, c := range cs {
			out[i] = int(c)
		}
		return out
	}
	switch x := b.(type) {
	case *rtcp.LossRLEReportBlock:
		return V{"bt": "lrle", "t": int(x.T), "ssrc": U32(x.SSRC), "bs": int(x.BeginSeq), "es": int(x.EndSeq), "chunks": chunks(x.Chunks)}
	case *rtcp.DuplicateRLEReportBlock:
		return V{"bt": "drle", "t": int(x.T), "ssrc": U32(x.SSRC), "bs": int(x.BeginSeq), "es": int(x.EndSeq), "chunks": chunks(x.Chunks)}
	case *rtcp.PacketReceiptTimesReportBlock:
		return V{"bt": "prt", "t": int(x.T), "ssrc": U32(x.SSRC), "bs": int(x.BeginSeq), "es": int(x.EndSeq), "times": U32s(x.ReceiptTime)}
	case *rtcp.ReceiverReferenceTimeReportBlock:
		return V{"bt": "rrt", "ntp": U64(x.NTPTimestamp)}
	case *rtcp.DLRRReportBlock:
		rs := make(L, len(x.Reports))
		for i, r := range x.Reports {
			rs[i] = V{"ssrc": U32(r.SSRC), "lrr": U32(r.LastRR), "dlrr": U32(r.DLRR)}
		}
		return V{"bt": "dlrr", "reports": rs}
	case *rtcp.StatisticsSummaryReportBlock:
		return V{"bt": "ss", "l": x.LossReports, "d": x.DuplicateReports, "j": x.JitterReports, "toh": int(x.TTLorHopLimit),
			"ssrc": U32(x.SSRC), "bs": int(x.BeginSeq), "es": int(x.EndSeq),
			"lost": U32(x.LostPackets), "dup": U32(x.DupPackets), "minj": U32(x.MinJitter), "maxj": U32(x.MaxJitter),
			"meanj": U32(x.MeanJitter), "devj": U32(x.DevJitter),
			"mint": int(x.MinTTLOrHL), "maxt": int(x.MaxTTLOrHL), "meant": int(x.MeanTTLOrHL), "devt": int(x.DevTTLOrHL)}
	case *rtcp.VoIPMetricsReportBlock:
		return V{"bt": "voip", "ssrc": U32(x.SSRC), "lr": int(x.LossRate), "dr": int(x.DiscardRate), "bd": int(x.BurstDensity),
			"gd": int(x.GapDensity), "bdur": int(x.BurstDuration), "gdur": int(x.GapDuration), "rtd": int(x.RoundTripDelay),
			"esd": int(x.EndSystemDelay), "sl": int(x.SignalLevel), "nl": int(x.NoiseLevel), "rerl": int(x.RERL), "gmin": int(x.Gmin),
			"rf": int(x.RFactor), "erf": int(x.ExtRFactor), "moslq": int(x.MOSLQ), "moscq": int(x.MOSCQ), "rxc": int(x.RXConfig),
			"jbn": int(x.JBNominal), "jbm": int(x.JBMaximum), "jba": int(x.JBAbsMax)}
	case *rtcp.UnknownReportBlock:
		return V{"bt": "unk", "type": int(x.XRHeader.BlockType), "ts": int(x.XRHeader.TypeSpecific), "bytes": Bytes(x.Bytes)}
	}
	return V{"bt": "other"}
}

// XRHeaders returns the (derived) wire-header echo of each block; it is not
// part of the abstract value (DESIGN.md 2.2) and is observed separately.
func XRHeaders(x *rtcp.ExtendedReport) L {
	out := make(L, len(x.Reports))
	for i, b := range x.Reports {
		var h rtcp.XRHeader
		switch y := b.(type) {
		case *rtcp.LossRLEReportBlock:
			h = y.XRHeader
		case *rtcp.DuplicateRLEReportBlock:
			h = y.XRHeader
		case *rtcp.PacketReceiptTimesReportBlock:
			h = y.XRHeader
		case *rtcp.ReceiverReferenceTimeReportBlock:
			h = y.XRHeader
		case *rtcp.DLRRReportBlock:
			h = y.XRHeader
		case *rtcp.StatisticsSummaryReportBlock:
			h = y.XRHeader
		case *rtcp.VoIPMetricsReportBlock:
			h = y.XRHeader
		case *rtcp.UnknownReportBlock:
			h = y.XRHeader
		}
		out[i] = L{int(h.BlockType), int(h.TypeSpecific), int(h.BlockLength)}
	}
	return out
}

// Abs projects a real packet to its abstract value.
func Abs(p rtcp.Packet) V {
	switch x := p.(type) {
	case *rtcp.SenderReport:
		return V{"k": "SR", "ssrc": U32(x.SSRC), "ntp": U64(x.NTPTime), "rtp": U32(x.RTPTime), "pc": U32(x.PacketCount),
			"oc": U32(x.OctetCount), "reports": rbs(x.Reports), "ext": Bytes(x.ProfileExtensions)}
	case *rtcp.ReceiverReport:
		return V{"k": "RR", "ssrc": U32(x.SSRC), "reports": rbs(x.Reports), "ext": Bytes(x.ProfileExtensions)}
	case *rtcp.SourceDescription:
		cs := make(L, len(x.Chunks))
		for i, c := range x.Chunks {
			cs[i] = SDESChunk(c)
		}
		return V{"k": "SDES", "chunks": cs}
	case *rtcp.Goodbye:
		return V{"k": "BYE", "srcs": U32s(x.Sources), "reason": Bytes([]byte(x.Reason))}
	case *rtcp.ApplicationDefined:
		return V{"k": "APP", "st": int(x.SubType), "ssrc": U32(x.SSRC), "name": Bytes([]byte(x.Name)), "data": Bytes(x.Data)}
	case *rtcp.TransportLayerNack:
		ns := make(L, len(x.Nacks))
		for i, n := range x.Nacks {
			ns[i] = V{"pid": int(n.PacketID), "blp": int(n.LostPackets)}
		}
		return V{"k": "NACK", "sender": U32(x.SenderSSRC), "media": U32(x.MediaSSRC), "nacks": ns}
	case *rtcp.RapidResynchronizationRequest:
		return V{"k": "RRR", "sender": U32(x.SenderSSRC), "media": U32(x.MediaSSRC)}
	case *rtcp.PictureLossIndication:
		return V{"k": "PLI", "sender": U32(x.SenderSSRC), "media": U32(x.MediaSSRC)}
	case *rtcp.SliceLossIndication:
		es := make(L, len(x.SLI))
		for i, e := range x.SLI {
			es[i] = V{"first": int(e.First), "number": int(e.Number), "pic": int(e.Picture)}
		}
		return V{"k": "SLI", "sender": U32(x.SenderSSRC), "media": U32(x.MediaSSRC), "sli": es}
	case *rtcp.FullIntraRequest:
		es := make(L, len(x.FIR))
		for i, e := range x.FIR {
			es[i] = V{"ssrc": U32(e.SSRC), "seq": int(e.SequenceNumber)}
		}
		return V{"k": "FIR", "sender": U32(x.SenderSSRC), "media": U32(x.MediaSSRC), "fir": es}
	case *rtcp.ReceiverEstimatedMaximumBitrate:
		return V{"k": "REMB", "sender": U32(x.SenderSSRC), "br": Float(x.Bitrate), "ssrcs": U32s(x.SSRCs)}
	case *rtcp.TransportLayerCC:
		cs := make(L, len(x.PacketChunks))
		for i, c := range x.PacketChunks {
			cs[i] = chunk(c)
		}
		ds := make(L, len(x.RecvDeltas))
		for i, d := range x.RecvDeltas {
			ds[i] = Delta(d)
		}
		return V{"k": "TWCC", "hdr": Hdr(x.Header), "sender": U32(x.SenderSSRC), "media": U32(x.MediaSSRC),
			"base": int(x.BaseSequenceNumber), "count": int(x.PacketStatusCount), "ref": U32(x.ReferenceTime), "fb": int(x.FbPktCount),
			"chunks": cs, "deltas": ds}
	case *rtcp.CCFeedbackReport:
		bs := make(L, len(x.ReportBlocks))
		for i, b := range x.ReportBlocks {
			ms := make(L, len(b.MetricBlocks))
			for j, m := range b.MetricBlocks {
				ms[j] = V{"r": m.Received, "ecn": int(m.ECN), "ato": int(m.ArrivalTimeOffset)}
			}
			bs[i] = V{"media": U32(b.MediaSSRC), "begin": int(b.BeginSequence), "mbs": ms}
		}
		return V{"k": "CCFB", "sender": U32(x.SenderSSRC), "blocks": bs, "ts": U32(x.ReportTimestamp)}
	case *rtcp.ExtendedReport:
		bs := make(L, len(x.Reports))
		for i, b := range x.Reports {
			bs[i] = xrBlock(b)
		}
		return V{"k": "XR", "sender": U32(x.SenderSSRC), "blocks": bs}
	case *rtcp.RawPacket:
		return V{"k": "RAW", "bytes": Bytes([]byte(*x))}
	case *rtcp.CompoundPacket:
		return V{"k": "CP", "pkts": AbsList([]rtcp.Packet(*x))}
	case nil:
		return V{"k": "NIL"}
	}
	return V{"k": "OTHER", "gotype": fmt.Sprintf("%T", p)}
}

func AbsList(ps []rtcp.Packet) L {
	out := make(L, len(ps))
	for i, p := range ps {
		out[i] = Abs(p)
	}
	return out
}

// ---------------------------------------------------------------------------
// Build: abstract value -> real struct. Input comes from JSON (numbers may be
// float64, json.Number or int).

func I(x any) int {
	switch n := x.(type) {
	case int:
		return n
	case int64:
		return int(n)
	case float64:
		return int(n)
	case interface{ Int64() (int64, error) }:
		v, err := n.Int64()
		if err != nil {
			panic(err)
		}
		return int(v)
	}
	panic(fmt.Sprintf("abs: not an integer: %T %v", x, x))
}

func B(x any) bool {
	b, ok := x.(bool)
	if !ok {
		panic(fmt.Sprintf("abs: not a bool: %T %v", x, x))
	}
	return b
}

func List(x any) L {
	switch l := x.(type) {
	case L:
		return l
	case nil:
		return nil
	case string:
		// TLC's ToJson prints an empty sequence as [] but an empty string
		// cannot occur here; guard anyway.
		if l == "" {
			return nil
		}
	}
	panic(fmt.Sprintf("abs: not a list: %T %v", x, x))
}

// Spare collects, while a Build is in progress (see exec.State.Build), the
// full-capacity views of the byte slices handed to the library: each slice
// is given 8 octets of spare capacity filled with SpareFill, so that a write
// beyond len (append aliasing) can be observed afterwards.
var Spare [][]byte

const SpareFill = 0xA5

// emptyToggle alternates between the two Go representations of an empty list (nil and empty non-nil): the
// abstract value does not distinguish them, a caller's struct may hold either. It is reset by Build, so what a
// value gets depends only on the value.
var emptyToggle int

func GoBytes(x any) []byte {
	l := List(x)
	if len(l) == 0 {
		emptyToggle++
		if emptyToggle%2 == 0 {
			return []byte{}
		}
		return nil
	}
	if ArenaOn {
		out := arenaTake(&byteArena, len(l))
		for i, b := range l {
			out[i] = byte(I(b))
		}
		return out
	}
	full := make([]byte, len(l)+8)
	for i := range full {
		full[i] = SpareFill
	}
	out := full[:len(l)]
	for i, b := range l {
		out[i] = byte(I(b))
	}
	if Spare != nil {
		Spare = append(Spare, full[len(l):])
	}
	return out
}

// plainBytes converts without spare capacity, sentinels or the arena (temporaries of fixed-width numbers).
func plainBytes(x any) []byte {
	l := List(x)
	out := make([]byte, len(l))
	for i, b := range l {
		out[i] = byte(I(b))
	}
	return out
}

func GoU32(x any) uint32 {
	b := plainBytes(x)
	if len(b) != 4 {
		panic(fmt.Sprintf("abs: u32 needs 4 octets, got %v", x))
	}
	return binary.BigEndian.Uint32(b)
}

func GoU64(x any) uint64 {
	b := plainBytes(x)
	if len(b) != 8 {
		panic(fmt.Sprintf("abs: u64 needs 8 octets, got %v", x))
	}
	return binary.BigEndian.Uint64(b)
}

func GoU32s(x any) []uint32 {
	l := List(x)
	if len(l) == 0 {
		emptyToggle++
		if emptyToggle%2 == 0 {
			return []uint32{}
		}
		return nil
	}
	out := make([]uint32, len(l))
	if ArenaOn {
		out = arenaTake(&u32Arena, len(l))
	}
	for i, e := range l {
		out[i] = GoU32(e)
	}
	return out
}

// Arena mode: the variable-length fields of one built value (a packet, or all packets of a list) are
// consecutive windows of one backing array, each with the rest of the array as its spare capacity - the
// layout of an application that cuts its fields out of one buffer. A library call that appends to a field
// it was given then writes into the next field, or the next packet. ArenaOn is set per built value by the
// caller (exec.BuildAny) as a function of the value.
var ArenaOn bool
var byteArena []byte
var u32Arena []uint32
var metricArena []rtcp.CCFeedbackMetricBlock

// ArenaReset starts a new set of backing arrays.
func ArenaReset() {
	byteArena, u32Arena, metricArena = nil, nil, nil
}

func arenaTake[T any](a *[]T, n int) []T {
	if cap(*a)-len(*a) < n {
		size := 1 << 12
		if n > size {
			size = n
		}
		*a = make([]T, 0, size)
	}
	start := len(*a)
	*a = (*a)[:start+n]
	return (*a)[start : start+n]
}

func rec(x any) V {
	m, ok := x.(V)
	if !ok {
		panic(fmt.Sprintf("abs: not a record: %T %v", x, x))
	}
	return m
}

func BuildRB(x any) rtcp.ReceptionReport {
	m := rec(x)
	return rtcp.ReceptionReport{SSRC: GoU32(m["ssrc"]), FractionLost: uint8(I(m["fl"])), TotalLost: GoU32(m["lost"]),
		LastSequenceNumber: GoU32(m["seq"]), Jitter: GoU32(m["jit"]), LastSenderReport: GoU32(m["lsr"]), Delay: GoU32(m["dlsr"])}
}

func buildRBs(x any) []rtcp.ReceptionReport {
	l := List(x)
	if len(l) == 0 {
		return nil
	}
	out := make([]rtcp.ReceptionReport, len(l))
	for i, e := range l {
		out[i] = BuildRB(e)
	}
	return out
}

func BuildHdr(x any) rtcp.Header {
	m := rec(x)
	return rtcp.Header{Padding: B(m["p"]), Count: uint8(I(m["c"])), Type: rtcp.PacketType(I(m["t"])), Length: uint16(I(m["len"]))}
}

func BuildFloat(x any) float32 {
	m := rec(x)
	return math.Float32frombits(uint32(I(m["s"]))<<31 | uint32(I(m["e"]))<<23 | uint32(I(m["f"])))
}

func BuildSDESItem(x any) rtcp.SourceDescriptionItem {
	m := rec(x)
	return rtcp.SourceDescriptionItem{Type: rtcp.SDESType(I(m["t"])), Text: string(GoBytes(m["text"]))}
}

func BuildSDESChunk(x any) rtcp.SourceDescriptionChunk {
	m := rec(x)
	var items []rtcp.SourceDescriptionItem
	for _, it := range List(m["items"]) {
		items = append(items, BuildSDESItem(it))
	}
	return rtcp.SourceDescriptionChunk{Source: GoU32(m["src"]), Items: items}
}

func BuildChunk(x any) rtcp.PacketStatusChunk {
	m := rec(x)
	switch m["ct"] {
	case "rl":
		return &rtcp.RunLengthChunk{Type: uint16(I(m["typ"])), PacketStatusSymbol: uint16(I(m["sym"])), RunLength: uint16(I(m["run"]))}
	case "sv":
		var syms []uint16
		for _, s := range List(m["syms"]) {
			syms = append(syms, uint16(I(s)))
		}
		return &rtcp.StatusVectorChunk{Type: uint16(I(m["typ"])), SymbolSize: uint16(I(m["ss"])), SymbolList: syms}
	}
	panic(fmt.Sprintf("abs: unknown chunk %v", x))
}

func BuildDelta(x any) *rtcp.RecvDelta {
	m := rec(x)
	big := int64(0)
	if b, ok := m["big"]; ok {
		big = int64(I(b))
	}
	return &rtcp.RecvDelta{Type: uint16(I(m["t"])), Delta: 250*(int64(I(m["ticks"]))+big<<32) + int64(I(m["rem"]))}
}

func buildXRBlock(x any) rtcp.ReportBlock {
	m := rec(x)
	chunks := func(v any) []rtcp.Chunk {
		var out []rtcp.Chunk
		for _, c := range List(v) {
			out = append(out, rtcp.Chunk(I(c)))
		}
		return out
	}
	// XRHeader of the defined block kinds is recomputed by every Marshal and is not part of the
	// value: give it arbitrary non-zero content, as a caller reusing a struct would leave it
	// value. What a caller's struct holds there varies: nothing, arbitrary content, or - after an
	// earlier Marshal or Unmarshal of a block whose lists have since been edited - the right block
	// type with a length that is no longer right. Which of these a built block gets is a function
	// of the block's value (so that re-running a case reproduces it).
	junk := rtcp.XRHeader{BlockType: 0x55, TypeSpecific: 0xFF, BlockLength: 0x1234}
	bts := map[string]rtcp.BlockTypeType{"lrle": 1, "drle": 2, "prt": 3, "rrt": 4, "dlrr": 5, "ss": 6, "voip": 7}
	if js, err := json.Marshal(m); err == nil {
		h := fnv.New32a()
		h.Write(js)
		bt, _ := m["bt"].(string)
		switch h.Sum32() % 4 {
		case 1:
			junk = rtcp.XRHeader{}
		case 2:
			junk = rtcp.XRHeader{BlockType: bts[bt], BlockLength: 2}
		case 3:
			junk = rtcp.XRHeader{BlockType: bts[bt], TypeSpecific: 0x0F, BlockLength: 9}
		}
	}
	switch m["bt"] {
	case "lrle":
		return &rtcp.LossRLEReportBlock{XRHeader: junk, T: uint8(I(m["t"])), SSRC: GoU32(m["ssrc"]), BeginSeq: uint16(I(m["bs"])), EndSeq: uint16(I(m["es"])), Chunks: chunks(m["chunks"])}
	case "drle":
		return &rtcp.DuplicateRLEReportBlock{XRHeader: junk, T: uint8(I(m["t"])), SSRC: GoU32(m["ssrc"]), BeginSeq: uint16(I(m["bs"])), EndSeq: uint16(I(m["es"])), Chunks: chunks(m["chunks"])}
	case "prt":
		return &rtcp.PacketReceiptTimesReportBlock{XRHeader: junk, T: uint8(I(m["t"])), SSRC: GoU32(m["ssrc"]), BeginSeq: uint16(I(m["bs"])), EndSeq: uint16(I(m["es"])), ReceiptTime: GoU32s(m["times"])}
	case "rrt":
		return &rtcp.ReceiverReferenceTimeReportBlock{XRHeader: junk, NTPTimestamp: GoU64(m["ntp"])}
	case "dlrr":
		var rs []rtcp.DLRRReport
		for _, r := range List(m["reports"]) {
			rm := rec(r)
			rs = append(rs, rtcp.DLRRReport{SSRC: GoU32(rm["ssrc"]), LastRR: GoU32(rm["lrr"]), DLRR: GoU32(rm["dlrr"])})
		}
		return &rtcp.DLRRReportBlock{XRHeader: junk, Reports: rs}
	case "ss":
		return &rtcp.StatisticsSummaryReportBlock{XRHeader: junk, LossReports: B(m["l"]), DuplicateReports: B(m["d"]), JitterReports: B(m["j"]),
			TTLorHopLimit: rtcp.TTLorHopLimitType(I(m["toh"])), SSRC: GoU32(m["ssrc"]), BeginSeq: uint16(I(m["bs"])), EndSeq: uint16(I(m["es"])),
			LostPackets: GoU32(m["lost"]), DupPackets: GoU32(m["dup"]), MinJitter: GoU32(m["minj"]), MaxJitter: GoU32(m["maxj"]),
			MeanJitter: GoU32(m["meanj"]), DevJitter: GoU32(m["devj"]), MinTTLOrHL: uint8(I(m["mint"])), MaxTTLOrHL: uint8(I(m["maxt"])),
			MeanTTLOrHL: uint8(I(m["meant"])), DevTTLOrHL: uint8(I(m["devt"]))}
	case "voip":
		return &rtcp.VoIPMetricsReportBlock{XRHeader: junk, SSRC: GoU32(m["ssrc"]), LossRate: uint8(I(m["lr"])), DiscardRate: uint8(I(m["dr"])),
			BurstDensity: uint8(I(m["bd"])), GapDensity: uint8(I(m["gd"])), BurstDuration: uint16(I(m["bdur"])), GapDuration: uint16(I(m["gdur"])),
			RoundTripDelay: uint16(I(m["rtd"])), EndSystemDelay: uint16(I(m["esd"])), SignalLevel: uint8(I(m["sl"])), NoiseLevel: uint8(I(m["nl"])),
			RERL: uint8(I(m["rerl"])), Gmin: uint8(I(m["gmin"])), RFactor: uint8(I(m["rf"])), ExtRFactor: uint8(I(m["erf"])),
			MOSLQ: uint8(I(m["moslq"])), MOSCQ: uint8(I(m["moscq"])), RXConfig: uint8(I(m["rxc"])),
			JBNominal: uint16(I(m["jbn"])), JBMaximum: uint16(I(m["jbm"])), JBAbsMax: uint16(I(m["jba"]))}
	case "unk":
		return &rtcp.UnknownReportBlock{XRHeader: rtcp.XRHeader{BlockType: rtcp.BlockTypeType(I(m["type"])), TypeSpecific: rtcp.TypeSpecificField(I(m["ts"])), BlockLength: junk.BlockLength}, Bytes: GoBytes(m["bytes"])}
	}
	panic(fmt.Sprintf("abs: unknown XR block %v", x))
}

// Build constructs the real packet (always a pointer type, as rtcp.Unmarshal
// returns them) for an abstract value.
func Build(x any) rtcp.Packet {
	m := rec(x)
	emptyToggle = len(m) // a function of the value
	return build(m)
}

func build(m V) rtcp.Packet {
	switch m["k"] {
	case "SR":
		return &rtcp.SenderReport{SSRC: GoU32(m["ssrc"]), NTPTime: GoU64(m["ntp"]), RTPTime: GoU32(m["rtp"]), PacketCount: GoU32(m["pc"]),
			OctetCount: GoU32(m["oc"]), Reports: buildRBs(m["reports"]), ProfileExtensions: GoBytes(m["ext"])}
	case "RR":
		return &rtcp.ReceiverReport{SSRC: GoU32(m["ssrc"]), Reports: buildRBs(m["reports"]), ProfileExtensions: GoBytes(m["ext"])}
	case "SDES":
		var cs []rtcp.SourceDescriptionChunk
		for _, c := range List(m["chunks"]) {
			cs = append(cs, BuildSDESChunk(c))
		}
		return &rtcp.SourceDescription{Chunks: cs}
	case "BYE":
		return &rtcp.Goodbye{Sources: GoU32s(m["srcs"]), Reason: string(GoBytes(m["reason"]))}
	case "APP":
		return &rtcp.ApplicationDefined{SubType: uint8(I(m["st"])), SSRC: GoU32(m["ssrc"]), Name: string(GoBytes(m["name"])), Data: GoBytes(m["data"])}
	case "NACK":
		var ns []rtcp.NackPair
		for _, n := range List(m["nacks"]) {
			nm := rec(n)
			ns = append(ns, rtcp.NackPair{PacketID: uint16(I(nm["pid"])), LostPackets: rtcp.PacketBitmap(I(nm["blp"]))})
		}
		return &rtcp.TransportLayerNack{SenderSSRC: GoU32(m["sender"]), MediaSSRC: GoU32(m["media"]), Nacks: ns}
	case "RRR":
		return &rtcp.RapidResynchronizationRequest{SenderSSRC: GoU32(m["sender"]), MediaSSRC: GoU32(m["media"])}
	case "PLI":
		return &rtcp.PictureLossIndication{SenderSSRC: GoU32(m["sender"]), MediaSSRC: GoU32(m["media"])}
	case "SLI":
		var es []rtcp.SLIEntry
		for _, e := range List(m["sli"]) {
			em := rec(e)
			es = append(es, rtcp.SLIEntry{First: uint16(I(em["first"])), Number: uint16(I(em["number"])), Picture: uint8(I(em["pic"]))})
		}
		return &rtcp.SliceLossIndication{SenderSSRC: GoU32(m["sender"]), MediaSSRC: GoU32(m["media"]), SLI: es}
	case "FIR":
		var es []rtcp.FIREntry
		for _, e := range List(m["fir"]) {
			em := rec(e)
			es = append(es, rtcp.FIREntry{SSRC: GoU32(em["ssrc"]), SequenceNumber: uint8(I(em["seq"]))})
		}
		return &rtcp.FullIntraRequest{SenderSSRC: GoU32(m["sender"]), MediaSSRC: GoU32(m["media"]), FIR: es}
	case "REMB":
		return &rtcp.ReceiverEstimatedMaximumBitrate{SenderSSRC: GoU32(m["sender"]), Bitrate: BuildFloat(m["br"]), SSRCs: GoU32s(m["ssrcs"])}
	case "TWCC":
		var cs []rtcp.PacketStatusChunk
		for _, c := range List(m["chunks"]) {
			cs = append(cs, BuildChunk(c))
		}
		var ds []*rtcp.RecvDelta
		var prevDelta any
		for _, d := range List(m["deltas"]) {
			// two equal neighbours are one object listed twice (pointer lists allow it)
			if n := len(ds); n > 0 && reflect.DeepEqual(d, prevDelta) {
				ds = append(ds, ds[n-1])
			} else {
				ds = append(ds, BuildDelta(d))
			}
			prevDelta = d
		}
		return &rtcp.TransportLayerCC{Header: BuildHdr(m["hdr"]), SenderSSRC: GoU32(m["sender"]), MediaSSRC: GoU32(m["media"]),
			BaseSequenceNumber: uint16(I(m["base"])), PacketStatusCount: uint16(I(m["count"])), ReferenceTime: GoU32(m["ref"]),
			FbPktCount: uint8(I(m["fb"])), PacketChunks: cs, RecvDeltas: ds}
	case "CCFB":
		var bs []rtcp.CCFeedbackReportBlock
		for _, b := range List(m["blocks"]) {
			bm := rec(b)
			var ms []rtcp.CCFeedbackMetricBlock
			if ArenaOn && len(List(bm["mbs"])) > 0 {
				ms = arenaTake(&metricArena, len(List(bm["mbs"])))[:0]
			}
			for _, mb := range List(bm["mbs"]) {
				mm := rec(mb)
				ms = append(ms, rtcp.CCFeedbackMetricBlock{Received: B(mm["r"]), ECN: rtcp.ECN(I(mm["ecn"])), ArrivalTimeOffset: uint16(I(mm["ato"]))})
			}
			bs = append(bs, rtcp.CCFeedbackReportBlock{MediaSSRC: GoU32(bm["media"]), BeginSequence: uint16(I(bm["begin"])), MetricBlocks: ms})
		}
		return &rtcp.CCFeedbackReport{SenderSSRC: GoU32(m["sender"]), ReportBlocks: bs, ReportTimestamp: GoU32(m["ts"])}
	case "XR":
		var bs []rtcp.ReportBlock
		var prevBlock any
		for _, b := range List(m["blocks"]) {
			if n := len(bs); n > 0 && reflect.DeepEqual(b, prevBlock) {
				bs = append(bs, bs[n-1])
			} else {
				bs = append(bs, buildXRBlock(b))
			}
			prevBlock = b
		}
		return &rtcp.ExtendedReport{SenderSSRC: GoU32(m["sender"]), Reports: bs}
	case "RAW":
		r := rtcp.RawPacket(GoBytes(m["bytes"]))
		return &r
	case "CP":
		c := rtcp.CompoundPacket(BuildList(m["pkts"]))
		return &c
	}
	panic(fmt.Sprintf("abs: unknown packet kind %v", m["k"]))
}

func BuildList(x any) []rtcp.Packet {
	var out []rtcp.Packet
	// a member equal to an earlier one is the same object listed again (a caller that sends one report
	// twice does not copy it)
	seen := map[string]rtcp.Packet{}
	for _, p := range List(x) {
		key := ""
		if js, err := json.Marshal(p); err == nil && len(js) < 4096 {
			key = string(js)
			if q, ok := seen[key]; ok {
				out = append(out, q)
				continue
			}
		}
		q := Build(p)
		if key != "" {
			seen[key] = q
		}
		out = append(out, q)
	}
	return out
}
