// Package dict collects byte tokens for the input generators: a fixed list of octet strings that
// protocol code tends to treat specially (white space, NUL, byte order marks, format verbs) and the
// short string, character and byte-list literals of the library's own non-test sources, read from
// the working tree under test when the harness starts. Tokens only steer input generation (as a
// fuzzing dictionary does); every verdict is still the specification's.
package dict

import (
	"go/ast"
	"go/parser"
	"go/token"
	"hash/adler32"
	"hash/crc32"
	"hash/fnv"
	"os"
	"path/filepath"
	"sort"
	"strconv"
	"strings"
)

var standard = []string{
	" ", "\t", "\r\n", "\n", " \t\r\n", "  ", "\x00", "\x00\x00\x00\x00", "\xef\xbb\xbf", "\xff\xfe", "\xfe\xff",
	"\x7f", "\x80", "\xc2\xa0", "\xe2\x80\xa8", "%s", "%!", "%d%n", "\\", "\"", "'", "0", "-1", "a", "A", "@", "/", "..", "\x1b[",
	".", ":", "+", "_", "~", "%", "\x01", "\x1b",
	// characters that text-sanitising code removes or rewrites: bidirectional controls, zero-width characters, a combining mark
	"\u200e", "\u200f", "\u202a", "\u202e", "\u2066", "\u2069", "\u061c", "\u200b", "\u200d", "\u0301",
	// characters whose upper- or lower-case form has another length in UTF-8
	"\u212a", "\u0130", "\u1e9e", "\u00df", "\u017f", "\u212b", "\u0131",
}

// Suffixes are multi-octet UTF-8 characters cut short: what a text ends with when it was truncated, and
// what a scanner that looks ahead after a lead octet must not run past.
func Suffixes() [][]byte {
	var out [][]byte
	for _, lead := range []byte{0xC2, 0xC3, 0xE0, 0xE1, 0xE2, 0xE3, 0xED, 0xEF, 0xF0, 0xF4} {
		out = append(out, []byte{lead})
		if lead >= 0xE0 {
			for _, second := range []byte{0x80, 0x81, 0x9F, 0xA0, 0xBF} {
				out = append(out, []byte{lead, second})
			}
		}
		if lead >= 0xF0 {
			out = append(out, []byte{lead, 0x9F, 0x98})
		}
	}
	return out
}

// Collisions returns pairs of different texts of equal length that collide under the non-cryptographic
// 32-bit hashes of the standard library (what a cache or an interning table keyed by a hash would confuse).
func Collisions() [][2]string {
	type hf struct {
		name string
		f    func([]byte) uint32
	}
	hs := []hf{
		{"fnv32", func(b []byte) uint32 { h := fnv.New32(); h.Write(b); return h.Sum32() }},
		{"fnv32a", func(b []byte) uint32 { h := fnv.New32a(); h.Write(b); return h.Sum32() }},
		{"crc32", func(b []byte) uint32 { return crc32.ChecksumIEEE(b) }},
		{"crc32c", func(b []byte) uint32 { return crc32.Checksum(b, crc32.MakeTable(crc32.Castagnoli)) }},
		{"adler32", func(b []byte) uint32 { return adler32.Checksum(b) }},
	}
	var out [][2]string
	for _, h := range hs {
		seen := map[uint32]string{}
		for i := 0; i < 1500000; i++ {
			// eight varying characters (a multiplicative hash is nearly injective on texts that differ in few places)
			x := uint64(i)*0x9E3779B97F4A7C15 + 0x1234567
			t := "u" + strconv.FormatUint(x>>24|1<<39, 36) + "@example.org"
			k := h.f([]byte(t))
			if o, ok := seen[k]; ok && len(o) == len(t) {
				out = append(out, [2]string{o, t})
				break
			}
			seen[k] = t
		}
	}
	return out
}

// Load returns the tokens (at most 8 octets each), sorted, without duplicates.
func Load(repo string) [][]byte {
	seen := map[string]bool{}
	for _, s := range standard {
		seen[s] = true
	}
	files, _ := filepath.Glob(filepath.Join(repo, "*.go"))
	for _, f := range files {
		if strings.HasSuffix(f, "_test.go") {
			continue
		}
		af, err := parser.ParseFile(token.NewFileSet(), f, nil, 0)
		if err != nil {
			continue
		}
		ast.Inspect(af, func(n ast.Node) bool {
			switch x := n.(type) {
			case *ast.ImportSpec:
				return false
			case *ast.BasicLit:
				if x.Kind == token.STRING || x.Kind == token.CHAR {
					if s, err := strconv.Unquote(x.Value); err == nil && len(s) >= 1 && len(s) <= 8 {
						seen[s] = true
					}
				}
				// an integer constant of more than one octet may be a packed identifier or a magic word:
				// both byte orders
				if x.Kind == token.INT {
					if v, err := strconv.ParseUint(strings.ReplaceAll(x.Value, "_", ""), 0, 64); err == nil && v > 0xFF {
						n := 2
						if v > 0xFFFF {
							n = 4
						}
						if v > 0xFFFFFFFF {
							n = 8
						}
						be := make([]byte, n)
						le := make([]byte, n)
						for i := 0; i < n; i++ {
							be[n-1-i] = byte(v >> uint(8*i))
							le[i] = byte(v >> uint(8*i))
						}
						seen[string(be)] = true
						seen[string(le)] = true
					}
				}
			case *ast.CompositeLit:
				// {'R', 'E', 'M', 'B'} or {0x52, 0x45, 0x4d, 0x42}
				if len(x.Elts) >= 2 && len(x.Elts) <= 8 {
					b := make([]byte, 0, len(x.Elts))
					for _, e := range x.Elts {
						bl, ok := e.(*ast.BasicLit)
						if !ok {
							return true
						}
						switch bl.Kind {
						case token.CHAR:
							s, err := strconv.Unquote(bl.Value)
							if err != nil || len(s) != 1 {
								return true
							}
							b = append(b, s[0])
						case token.INT:
							v, err := strconv.ParseUint(bl.Value, 0, 8)
							if err != nil {
								return true
							}
							b = append(b, byte(v))
						default:
							return true
						}
					}
					seen[string(b)] = true
				}
			}
			return true
		})
	}
	keys := make([]string, 0, len(seen))
	for k := range seen {
		keys = append(keys, k)
	}
	sort.Strings(keys)
	out := make([][]byte, len(keys))
	for i, k := range keys {
		out[i] = []byte(k)
	}
	return out
}

// Repo is the library working tree the harness was built against.
func Repo() string {
	if r := os.Getenv("VERIF_REPO"); r != "" {
		return r
	}
	return "/repo"
}
