// Package dict collects byte tokens for the input generators: a fixed list of octet strings that
// protocol code tends to treat specially (white space, NUL, byte order marks, format verbs) and the
// short string, character and byte-list literals of the library's own non-test sources, read from
// the working tree under test when the harness starts. Tokens only steer input generation (as a
// fuzzing dictionary does); every verdict is still the specification's.
package dict

import (
	"go/ast"
	"go/parser"
	"go/token"
	"os"
	"path/filepath"
	"sort"
	"strconv"
	"strings"
)

var standard = []string{
	" ", "\t", "\r\n", "\n", " \t\r\n", "  ", "\x00", "\x00\x00\x00\x00", "\xef\xbb\xbf", "\xff\xfe", "\xfe\xff",
	"\x7f", "\x80", "\xc2\xa0", "\xe2\x80\xa8", "%s", "%!", "%d%n", "\\", "\"", "'", "0", "-1", "a", "A", "@", "/", "..", "\x1b[",
}

// Load returns the tokens (at most 8 octets each), sorted, without duplicates.
func Load(repo string) [][]byte {
	seen := map[string]bool{}
	for _, s := range standard {
		seen[s] = true
	}
	files, _ := filepath.Glob(filepath.Join(repo, "*.go"))
	for _, f := range files {
		if strings.HasSuffix(f, "_test.go") {
			continue
		}
		af, err := parser.ParseFile(token.NewFileSet(), f, nil, 0)
		if err != nil {
			continue
		}
		ast.Inspect(af, func(n ast.Node) bool {
			switch x := n.(type) {
			case *ast.ImportSpec:
				return false
			case *ast.BasicLit:
				if x.Kind == token.STRING || x.Kind == token.CHAR {
					if s, err := strconv.Unquote(x.Value); err == nil && len(s) >= 1 && len(s) <= 8 {
						seen[s] = true
					}
				}
			case *ast.CompositeLit:
				// {'R', 'E', 'M', 'B'} or {0x52, 0x45, 0x4d, 0x42}
				if len(x.Elts) >= 2 && len(x.Elts) <= 8 {
					b := make([]byte, 0, len(x.Elts))
					for _, e := range x.Elts {
						bl, ok := e.(*ast.BasicLit)
						if !ok {
							return true
						}
						switch bl.Kind {
						case token.CHAR:
							s, err := strconv.Unquote(bl.Value)
							if err != nil || len(s) != 1 {
								return true
							}
							b = append(b, s[0])
						case token.INT:
							v, err := strconv.ParseUint(bl.Value, 0, 8)
							if err != nil {
								return true
							}
							b = append(b, byte(v))
						default:
							return true
						}
					}
					seen[string(b)] = true
				}
			}
			return true
		})
	}
	keys := make([]string, 0, len(seen))
	for k := range seen {
		keys = append(keys, k)
	}
	sort.Strings(keys)
	out := make([][]byte, len(keys))
	for i, k := range keys {
		out[i] = []byte(k)
	}
	return out
}

// Repo is the library working tree the harness was built against.
func Repo() string {
	if r := os.Getenv("VERIF_REPO"); r != "" {
		return r
	}
	return "/repo"
}
