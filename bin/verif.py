#!/usr/bin/env python3
"""Orchestration library for the pion/rtcp TLA+ verification (DESIGN.md 4).

Stages available to a property check:
  mc(cfg, module)        exhaustive TLC run of a bounded configuration (invariants on the spec)
  behaviours(out)        the VERIF_BEH lines such a run emitted (one replayable behaviour each)
  replay(beh_file)       execute behaviours on the real code -> event trace
  drive(driver, n, ...)  run a Go-side driver on the real code -> event trace
  validate(traces)       TLC trace validation (spec/Trace.tla), sharded over cores -> bad tags + stats
Nothing here decides anything about the code except through TLC's verdict on recorded events.
"""
import json, os, re, shutil, subprocess, sys, tempfile, time, glob, hashlib, collections

VERIF = os.path.dirname(os.path.dirname(os.path.abspath(__file__)))
REPO = os.environ.get("VERIF_REPO", "/repo")
# where evidence/ and replays/ are written (redirected when a check is run against a scratch copy of the library)
OUT = os.environ.get("VERIF_OUT", VERIF)
SPEC = os.path.join(VERIF, "spec")
HARNESS = os.path.join(VERIF, "harness")
BUILD = os.environ.get("VERIF_BUILD", os.path.join(VERIF, "build"))
NCPU = os.cpu_count() or 4
GOENV = dict(os.environ, GOFLAGS="-mod=mod", GOPROXY="off", GOSUMDB="off", GOTOOLCHAIN="local", VERIF_REPO=REPO)

TLA_CP = "/opt/veriftools/tla/tla2tools.jar:/opt/veriftools/tla/CommunityModules-deps.jar"
# trace validation runs one single-threaded JVM per shard: serial GC and a bounded heap keep 16 of them from fighting
JAVA_TLC_SERIAL = ["java", "-XX:+UseSerialGC", "-Xss1g", "-Xmx3g", "-XX:TieredStopAtLevel=1", "-cp", TLA_CP, "tlc2.TLC"]

class MachineryError(Exception):
    pass

def log(*a):
    print("[verif]", *a, file=sys.stderr, flush=True)

def scratch(prefix="verif"):
    base = os.environ.get("VERIF_SCRATCH", "/tmp")
    return tempfile.mkdtemp(prefix=prefix + ".", dir=base)

# ---------------------------------------------------------------- build
def build_harness(race=False):
    """Rebuild the harness against the current working tree of REPO."""
    os.makedirs(BUILD, exist_ok=True)
    if os.environ.get("VERIF_VH") and not race:
        # a pre-built (e.g. coverage-instrumented) harness binary, for measuring what the drivers reach
        shutil.copy(os.environ["VERIF_VH"], os.path.join(BUILD, "vh"))
        return os.path.join(BUILD, "vh")
    modfile = os.path.join(BUILD, "go.mod")
    src = open(os.path.join(HARNESS, "go.mod")).read().replace("=> /repo", "=> " + REPO)
    open(modfile, "w").write(src)
    shutil.copy(os.path.join(REPO, "go.sum"), os.path.join(BUILD, "go.sum"))
    out = os.path.join(BUILD, "vh-race" if race else "vh")
    cmd = ["go", "build", "-modfile=" + modfile, "-o", out]
    if race:
        cmd.append("-race")
    cmd.append("./cmd/vh")
    p = subprocess.run(cmd, cwd=HARNESS, env=GOENV, capture_output=True, text=True)
    if p.returncode != 0:
        raise MachineryError("harness build failed:\n" + p.stdout + p.stderr)
    return out

# ---------------------------------------------------------------- TLC
def tlc_dir():
    d = scratch("tlc")
    for f in glob.glob(os.path.join(SPEC, "*.tla")) + glob.glob(os.path.join(SPEC, "*.cfg")):
        shutil.copy(f, d)
    return d

def run_tlc(module, cfg, workers=None, timeout=600, env=None, extra=None, d=None):
    own = d is None
    d = d or tlc_dir()
    # TLC creates an (empty) tlc-<n> directory under java.io.tmpdir on every start: keep it in the scratch directory
    e = dict(os.environ, JAVA_TOOL_OPTIONS="-Xss1g -Djava.io.tmpdir=" + d)
    if env:
        e.update(env)
    cmd = ["tlc", "-workers", str(workers or NCPU), "-metadir", os.path.join(d, "meta-" + cfg), "-config", cfg + ".cfg"] + (extra or []) + [module + ".tla"]
    t0 = time.time()
    try:
        p = subprocess.run(cmd, cwd=d, env=e, capture_output=True, text=True, timeout=timeout)
    except subprocess.TimeoutExpired:
        raise MachineryError(f"TLC timed out after {timeout}s: {' '.join(cmd)}")
    out = p.stdout + p.stderr
    if own:
        shutil.rmtree(d, ignore_errors=True)
    return out, time.time() - t0, " ".join(cmd)

def tlc_stats(out):
    m = re.search(r"(\d+) states generated, (\d+) distinct states found", out)
    if not m:
        return None
    return {"generated": int(m.group(1)), "distinct": int(m.group(2))}

def tlc_error(out):
    errs = [l for l in out.splitlines() if l.startswith("Error:") or "is violated" in l or "StackOverflow" in l or "Exception" in l]
    return errs

def mc(module, cfg, timeout=900, workers=None, coverage=False):
    """Exhaustive model check; returns dict(states, distinct, wall, cmd, behaviours, violated)."""
    extra = ["-coverage", "1"] if coverage else None
    out, wall, cmd = run_tlc(module, cfg, workers=workers, timeout=timeout, extra=extra)
    st = tlc_stats(out)
    errs = tlc_error(out)
    beh = []
    for l in out.splitlines():
        if l.startswith('<<"VERIF_BEH", "'):
            beh.append(unquote_tlc(l[len('<<"VERIF_BEH", "'):-3]))
    if st is None and not errs:
        raise MachineryError("TLC produced no statistics:\n" + out[-3000:])
    return {"states": st["distinct"] if st else 0, "transitions": st["generated"] if st else 0, "wall": wall, "cmd": cmd,
            "behaviours": beh, "errors": errs, "raw": out}

def unquote_tlc(s):
    return s.replace('\\"', '"').replace("\\\\", "\\")

# ---------------------------------------------------------------- real code
def run_vh(args, timeout=7200, binary=None, ok_codes=(0, 97)):
    binary = binary or os.path.join(BUILD, "vh")
    try:
        p = subprocess.run([binary] + args, capture_output=True, text=True, timeout=timeout, env=GOENV)
    except subprocess.TimeoutExpired:
        raise MachineryError("driver timed out: " + " ".join(args))
    info = {"rc": p.returncode, "stderr": p.stderr, "events": 0}
    m = re.search(r"VERIF_EVENTS (\d+)", p.stderr)
    if m:
        info["events"] = int(m.group(1))
    m = re.search(r"VERIF_HANG (.*)", p.stderr)
    info["hang"] = m.group(1) if m else None
    if p.returncode == 98:
        raise MachineryError("a non-decode call ran longer than 300 s: " + p.stderr[-600:])
    if p.returncode not in ok_codes:
        raise MachineryError(f"driver failed rc={p.returncode}: {' '.join(args)}\n{p.stderr[-3000:]}")
    return info

def replay(beh_lines, out_path):
    src = out_path + ".beh"
    with open(src, "w") as f:
        for l in beh_lines:
            f.write(l + "\n")
    info = run_vh(["replay", "-in", src, "-out", out_path])
    os.unlink(src)
    return info

def drive(driver, n, seed, out_path, extra=None, binary=None):
    return run_vh(["drive", "-driver", driver, "-n", str(n), "-seed", str(seed), "-out", out_path] + (extra or []), binary=binary)

# ---------------------------------------------------------------- validation
def shard_traces(paths, nshards, d):
    """Deal the reset-delimited cases of all event files round-robin into nshards files (cases are
    independent; dealing them spreads expensive neighbours over the shards)."""
    files = [open(os.path.join(d, f"shard-{i:03d}.ndjson"), "wb") for i in range(nshards)]
    k = -1
    for path in paths:
        with open(path, "rb") as f:
            for line in f:
                if k < 0 or line.startswith(b'{"h":0,"op":"reset"'):
                    k = (k + 1) % nshards
                files[k].write(line)
    out = []
    for fh in files:
        fh.close()
        if os.path.getsize(fh.name) > 0:
            out.append(fh.name)
        else:
            os.unlink(fh.name)
    return out

def validate(trace_paths, timeout=900, shards=None):
    """Validate event traces with TLC (spec/Trace.tla). Returns (bad, stats, info).
    bad: list of dicts {l, tag, dev, kind, trace, event} ; stats: summed counters."""
    d = tlc_dir()
    all_shards = shard_traces([tp for tp in trace_paths if os.path.getsize(tp) > 0], shards or NCPU, d)
    procs = []
    e = dict(os.environ)
    e.pop("JAVA_TOOL_OPTIONS", None)
    t0 = time.time()
    for i, sp in enumerate(all_shards):
        env = dict(e, VERIF_TRACE=sp)
        cmd = JAVA_TLC_SERIAL[:1] + ["-Djava.io.tmpdir=" + d] + JAVA_TLC_SERIAL[1:] + ["-workers", "1", "-metadir", os.path.join(d, f"meta{i}"), "-config", "Trace.cfg", "Trace.tla"]
        procs.append((sp, subprocess.Popen(cmd, cwd=d, env=env, stdout=subprocess.PIPE, stderr=subprocess.STDOUT, text=True)))
    bad = []
    stats = collections.Counter()
    events = 0
    states = 0
    for sp, p in procs:
        try:
            out, _ = p.communicate(timeout=timeout)
        except subprocess.TimeoutExpired:
            p.kill()
            shutil.rmtree(d, ignore_errors=True)
            raise MachineryError("trace validation timed out on " + sp)
        mb = re.search(r'<<"VERIF_BAD", "(.*)">>', out)
        ms = re.search(r'<<"VERIF_STATS", "(.*)">>', out)
        md = re.search(r'<<"VERIF_DONE", (\d+)>>', out)
        nlines = sum(1 for _ in open(sp, "rb"))
        if not (mb and ms and md) or int(md.group(1)) != nlines:
            keep = os.path.join(scratch("failed-trace"), os.path.basename(sp))
            shutil.copy(sp, keep)
            shutil.rmtree(d, ignore_errors=True)
            raise MachineryError(f"trace validation did not complete on {keep} ({nlines} events):\n" + "\n".join(out.splitlines()[-25:]))
        events += nlines
        st = tlc_stats(out)
        states += st["distinct"] if st else 0
        b = json.loads(unquote_tlc(mb.group(1)))
        if b:
            lines = open(sp).read().splitlines()
            for x in b:
                x["trace"] = sp
                # the case = events from the last reset up to the offending event
                i = x["l"] - 1
                j = i
                while j > 0 and '"op":"reset"' not in lines[j]:
                    j -= 1
                x["case"] = lines[j:i + 1]
            bad += b
        for k, v in json.loads(unquote_tlc(ms.group(1))).items():
            stats[k] += v
    wall = time.time() - t0
    shutil.rmtree(d, ignore_errors=True)
    return bad, dict(stats), {"events": events, "shards": len(all_shards), "wall": wall, "states": states,
                              "cmd": "tlc -workers 1 -config Trace.cfg Trace.tla  (VERIF_TRACE=<shard>, one JVM per shard)"}
