#!/bin/bash
# Extra evidence (not a registered check; nothing here decides a property about the code):
#  1. TLAPS: unbounded proofs of the arithmetic lemmas behind every size computation (spec/proofs).
#  2. Apalache: the step lemma of the NACK pair builder for ALL 2^16 x 2^16 x 2^16 (packet ID, bitmap, next
#     sequence number) combinations, one instance per gap 0..16 and one for "more than 16" (spec/apalache/
#     NackLemma.tla), and the loop invariant as an inductive invariant for lists of up to 2 numbers with
#     arbitrary values (NackInd.tla). TLC checks the same invariant on 17..26 boundary values only.
cd "$(dirname "$0")/.."
V=$PWD
D=$(mktemp -d /tmp/proofs.XXXXXX)
cp spec/proofs/*.tla $D/
( cd $D; for f in *.tla; do timeout 600 tlapm --threads 8 $f 2>&1 | grep -E "obligations|ERROR" ; done )
mkdir $D/apa; cp spec/apalache/*.tla $D/apa/; cd $D/apa
for k in $(seq 0 17); do
  printf 'CONSTANT K = %s\nINIT InitK\nNEXT Next\nINVARIANT StepLemma\n' $k > lemma$k.cfg
  ( timeout 1800 apalache-mc check --config=lemma$k.cfg --length=0 --out-dir=$D/apa/out$k NackLemma.tla > log$k.txt 2>&1; echo "NackLemma gap=$k: $(grep -E 'EXITCODE' log$k.txt || echo 'no result (timeout)')" ) &
done
wait
printf 'CONSTANT MaxLen = 2\nINIT LoopEntry\nNEXT Next\nINVARIANT IndInv\n' > base.cfg
printf 'CONSTANT MaxLen = 2\nINIT IndInit\nNEXT Next\nINVARIANT IndInv\n' > step.cfg
timeout 600 apalache-mc check --config=base.cfg --length=0 --out-dir=$D/apa/outb NackInd.tla 2>&1 | grep -E "EXITCODE" | sed 's/^/NackInd loop entry => IndInv: /'
timeout 1800 apalache-mc check --config=step.cfg --length=1 --out-dir=$D/apa/outs NackInd.tla 2>&1 | grep -E "EXITCODE" | sed 's/^/NackInd IndInv \/\\ Next => IndInv'"'"': /'
cd $V; rm -rf $D
