#!/bin/bash
# Extra (not a registered check): unbounded TLAPS proofs of the arithmetic lemmas behind every size computation.
set -e
D=$(mktemp -d /tmp/proofs.XXXXXX)
cp "$(dirname "$0")/../spec/proofs/"*.tla $D/
cd $D
for f in *.tla; do timeout 600 tlapm --threads 8 $f 2>&1 | grep -E "obligations|ERROR" ; done
rm -rf $D
