#!/usr/bin/env python3
"""Regenerate MANIFEST.json from bin/props.py (claimed checks) and properties.jsonl (the rest -> not_applicable)."""
import json, os, sys
sys.path.insert(0, os.path.dirname(os.path.abspath(__file__)))
import props
V = os.path.dirname(os.path.dirname(os.path.abspath(__file__)))
ids = [json.loads(l)["id"] for l in open(os.path.join(V, "properties.jsonl"))]
checks = []
for pid in ids:
    if pid not in props.PROPS:
        continue
    P = props.PROPS[pid]
    checks.append({
        "property_id": pid,
        "quick_cmd": f"bin/check {pid} --tier quick",
        "thorough_cmd": f"bin/check {pid} --tier thorough",
        "evidence_file": f"/verif/evidence/{pid}.json",
        "replay_cmd_template": "bin/check replay {path}",
        "engine": "tlc-trace-validation",
        "level_claimed": {"category": "model_checking", "text": P.get("level_text", props.DEFAULT_LEVEL) + (" For this property: " + P["exhaustive_note"] + "." if P.get("exhaustive_note") else ""), "design_ref": P.get("design_ref", "DESIGN.md section 6, " + pid)},
        "level_note": P.get("level_note", props.DEFAULT_NOTE),
        "technique": P.get("technique", "TLA+ specification (spec/*.tla) model-checked with TLC over bounded domains; TLC-generated behaviours replayed on the real code and recorded executions of the real code validated against the trace specification spec/Trace.tla"),
    })
na = [{"property_id": i, "reason": props.NOT_YET.get(i, "check not built yet")} for i in ids if i not in props.PROPS]
m = {"version": 1, "setup_cmd": "bin/setup.sh",
     "hooks": {"guard": "verif", "enable": "no hooks are needed: the library is sequential and all decoded state is in exported fields; the harness (harness/, a separate Go module) is rebuilt against /repo's working tree (replace github.com/pion/rtcp => /repo) on every check",
               "baseline_off_cmd": "cd /repo && GOFLAGS=-mod=mod GOPROXY=off GOSUMDB=off go test -vet=off -count=1 ./...", "source_commits": [], "add_only": True},
     "engines": [{"name": "tlc-trace-validation", "path": "bin/check", "serves_properties": [c["property_id"] for c in checks],
                  "kind_free_text": "explicit TLA+ specification (spec/), TLC exhaustive model checking of bounded configurations, replay of TLC-emitted behaviours on the real code (harness/cmd/vh), TLC trace validation of the recorded events (spec/Trace.tla)"}],
     "checks": checks,
     "notes": "Exit 2 from a check means the machinery failed (build, TLC, driver); it is never a verdict. known_findings.txt lists recorded defects (deviation switches of spec/Wire.tla) and repaired ones.",
     "not_applicable": na}
json.dump(m, open(os.path.join(V, "MANIFEST.json"), "w"), indent=1)
print("claimed", [c["property_id"] for c in checks], "not yet", [x["property_id"] for x in na])
