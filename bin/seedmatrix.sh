#!/bin/bash
# seedmatrix.sh [glob]: re-run every seeded change against the quick check of its property (regression of detection)
cd "$(dirname "$0")/.."
for d in seeded/${1:-*}; do
  [ -f $d/patch.diff ] || continue
  p=$(python3 -c "import json;print(json.load(open('$d/meta.json'))['property'])")
  r=$(bin/seedtest.py $d $p 2>&1 | tail -1)
  echo "$(basename $d) $r"
  rm -f $d/seedtest_result.json
done
