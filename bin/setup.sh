#!/bin/bash
# Offline setup: build the harness once (warms the Go build cache) and check the tools.
set -e
cd "$(dirname "$0")/.."
export GOFLAGS=-mod=mod GOPROXY=off GOSUMDB=off GOTOOLCHAIN=local
python3 -c "import sys; sys.path.insert(0,'bin'); import verif; print(verif.build_harness())"
java -version 2>&1 | head -1
test -f /opt/veriftools/tla/tla2tools.jar
echo setup-ok
