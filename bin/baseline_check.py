#!/usr/bin/env python3
"""Run the repository's test suite (guard off; there are no hooks) and compare with BASELINE.json."""
import json, subprocess, sys, os
repo = sys.argv[1] if len(sys.argv) > 1 else "/repo"
env = dict(os.environ, GOFLAGS="-mod=mod", GOPROXY="off", GOSUMDB="off", GOTOOLCHAIN="local")
p = subprocess.run(["go", "test", "-json", "-vet=off", "-count=1", "-timeout", "25m", "./..."], cwd=repo, env=env, capture_output=True, text=True)
passed = set()
failed = set()
for line in p.stdout.splitlines():
    try:
        e = json.loads(line)
    except Exception:
        continue
    if e.get("Test") and e.get("Action") in ("pass", "fail"):
        (passed if e["Action"] == "pass" else failed).add(e["Package"] + "::" + e["Test"])
base = set(json.load(open("/root/.vp/BASELINE.json"))["stable_pass"])
missing = sorted(base - passed)
print(f"baseline={len(base)} passed={len(passed)} failed={len(failed)} baseline_not_passing={len(missing)}")
for m in missing[:20]:
    print("  NOT PASSING:", m)
sys.exit(1 if missing or failed else 0)
