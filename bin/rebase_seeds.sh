#!/bin/bash
# rebase_seeds.sh: seeded patches were written against the /repo HEAD of their day; later fix: commits
# move their context. For every seeded/<id>/patch.diff that no longer applies cleanly, re-apply it with
# a 3-way merge (fix-reverts: git revert of the fix commit) in a scratch worktree and store the diff
# against the current HEAD (the original is kept as patch.orig.diff).
cd "$(dirname "$0")/.."
V=$PWD
W=$(mktemp -d /tmp/rebase.XXXXXX)
git -C /repo worktree add -q --detach $W/wt HEAD
export GOFLAGS=-mod=mod GOPROXY=off GOSUMDB=off GOTOOLCHAIN=local
for d in seeded/*; do
  [ -f $d/patch.diff ] || continue
  if git -C $W/wt apply --check $V/$d/patch.diff 2>/dev/null; then continue; fi
  ok=0
  c=$(echo $d | sed -n 's/.*fixrevert-\([0-9a-f]\{7\}\)$/\1/p')
  if [ -n "$c" ] && git -C $W/wt revert --no-commit $c >/dev/null 2>&1; then
    ok=1
  else
    git -C $W/wt revert --abort >/dev/null 2>&1
    git -C $W/wt reset -q --hard HEAD
    if git -C $W/wt apply -3 $V/$d/patch.diff >/dev/null 2>&1 && ! git -C $W/wt diff --name-only --diff-filter=U | grep -q .; then
      ok=1
    else
      git -C $W/wt reset -q --hard HEAD
      if (cd $W/wt && patch -p1 --fuzz=3 -s < $V/$d/patch.diff >/dev/null 2>&1); then ok=1; fi
    fi
  fi
  if [ $ok = 1 ] && (cd $W/wt && go build ./... 2>/dev/null); then
    [ -f $d/patch.orig.diff ] || cp $d/patch.diff $d/patch.orig.diff
    git -C $W/wt diff HEAD -- '*.go' > $d/patch.diff
    echo "rebased $d"
  else
    echo "CANNOT REBASE $d"
  fi
  git -C $W/wt reset -q --hard HEAD
  git -C $W/wt clean -fdq
done
git -C /repo worktree remove --force $W/wt
rm -rf $W
