#!/bin/bash
# ingest_seed.sh <worktree> <name> [props...]: copy patch/demo/meta from an agent's worktree into seeded/<name>, test it
set -e
WT=$1; NAME=$2; shift 2
D=/verif/seeded/$NAME
mkdir -p $D
cp $WT/patch.diff $D/; cp $WT/zz_seed_demo_test.go $D/ 2>/dev/null || true; cp $WT/meta.json $D/ 2>/dev/null || true
/verif/bin/seedtest.py $D "$@"
