#!/usr/bin/env python3
"""seedtest.py <dir with patch.diff [+ zz_seed_demo_test.go, meta.json]> [property ids...]
Applies a seeded change to a scratch copy of /repo (never to /repo itself), confirms it compiles and the
repository's tests still pass, runs the demonstration with and without the change, then runs the quick
checks of the named properties (default: the one in meta.json) against the scratch copy.
Prints one line per check: DETECTED / MISSED / ERROR. The scratch copy is removed afterwards."""
import json, os, shutil, subprocess, sys, tempfile, time
V = os.path.dirname(os.path.dirname(os.path.abspath(__file__)))
env = dict(os.environ, GOFLAGS="-mod=mod", GOPROXY="off", GOSUMDB="off", GOTOOLCHAIN="local")
d = os.path.abspath(sys.argv[1])
meta = json.load(open(os.path.join(d, "meta.json"))) if os.path.exists(os.path.join(d, "meta.json")) else {}
pids = sys.argv[2:] or [meta.get("property")]
scratch = tempfile.mkdtemp(prefix="seedtest.", dir="/tmp")
repo = os.path.join(scratch, "repo")
out = os.path.join(scratch, "out")
os.makedirs(out)
res = {"checks": {}}
try:
    subprocess.run(["git", "-C", "/repo", "worktree", "add", "-q", "--detach", repo, "HEAD"], check=True)
    demo = os.path.join(d, "zz_seed_demo_test.go")
    def gotest(run=None):
        cmd = ["go", "test", "-vet=off", "-count=1"] + (["-run", run] if run else []) + ["./..."]
        return subprocess.run(cmd, cwd=repo, env=env, capture_output=True, text=True)
    if os.path.exists(demo):
        shutil.copy(demo, repo)
        r = gotest("TestSeedDemo")
        res["demo_passes_without_change"] = r.returncode == 0
    a = subprocess.run(["git", "-C", repo, "apply", os.path.join(d, "patch.diff")], capture_output=True, text=True)
    if a.returncode != 0:
        print("ERROR patch does not apply:", a.stderr); sys.exit(2)
    if os.path.exists(demo):
        r = gotest("TestSeedDemo")
        res["demo_fails_with_change"] = r.returncode != 0
        os.unlink(os.path.join(repo, "zz_seed_demo_test.go"))
    r = subprocess.run([os.path.join(V, "bin", "baseline_check.py"), repo], capture_output=True, text=True)
    res["baseline_passes_with_change"] = r.returncode == 0
    res["baseline"] = r.stdout.strip().splitlines()[0] if r.stdout else r.stderr[-300:]
    print(json.dumps({k: v for k, v in res.items() if k != "checks"}))
    for pid in pids:
        t0 = time.time()
        e = dict(os.environ, VERIF_REPO=repo, VERIF_OUT=out, VERIF_BUILD=os.path.join(scratch, "build"))
        r = subprocess.run([os.path.join(V, "bin", "check"), pid, "--tier", os.environ.get("SEED_TIER", "quick")], cwd=V, env=e, capture_output=True, text=True)
        viol = [l for l in r.stdout.splitlines() if l.startswith("VIOLATION")]
        tags = []
        for l in viol:
            mp = l.split("replay=")[1] + ".meta.json"
            if os.path.exists(mp):
                tags.append(json.load(open(mp)).get("tag"))
        status = "DETECTED" if r.returncode == 1 and viol else ("MISSED" if r.returncode == 0 else "ERROR")
        res["checks"][pid] = {"status": status, "rc": r.returncode, "tags": tags, "wall_s": round(time.time() - t0, 1)}
        print(pid, status, "rc=%d" % r.returncode, tags, "%.0fs" % (time.time() - t0))
        if status == "ERROR":
            print(r.stderr[-1500:])
    json.dump(res, open(os.path.join(d, "seedtest_result.json"), "w"), indent=1)
finally:
    subprocess.run(["git", "-C", "/repo", "worktree", "remove", "--force", repo], capture_output=True)
    shutil.rmtree(scratch, ignore_errors=True)
