#!/bin/bash
# usage: tv.sh <trace.ndjson> [cfg] : validate a trace with TLC in a scratch dir, print VERIF_ lines
set -e
T=$(realpath "$1"); CFG=${2:-Trace}
D=$(mktemp -d /tmp/tv.XXXXXX)
cp /verif/spec/*.tla /verif/spec/*.cfg $D/
cd $D
JAVA_TOOL_OPTIONS="-Xss1g" VERIF_TRACE=$T timeout ${TV_TIMEOUT:-600} tlc -workers 1 -metadir $D/meta -config $CFG.cfg Trace.tla 2>&1 | grep -E "VERIF_|Error|error|rror:|states generated|line [0-9]+, col" | head -${TV_LINES:-40}
rm -rf $D
