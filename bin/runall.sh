#!/bin/bash
# runall.sh [tier] : run every claimed check once, print a one-line summary each
TIER=${1:-quick}
cd /verif
for p in $(python3 -c "import sys; sys.path.insert(0,'bin'); import props; print(' '.join(sorted(props.PROPS)))"); do
  s=$(date +%s)
  out=$(bin/check $p --tier $TIER 2>/tmp/runall-$p.err); rc=$?
  e=$(( $(date +%s) - s ))
  echo "$p rc=$rc ${e}s viol=$(echo "$out" | grep -c ^VIOLATION) known=$(echo "$out" | grep -c ^KNOWN)"
  if [ $rc -ge 2 ]; then tail -5 /tmp/runall-$p.err; fi
  if [ $rc -eq 1 ]; then echo "$out" | grep ^VIOLATION | head -3; fi
done
