"""Property table: which stages decide each property, and which flagged clauses belong to it."""

def owners(tag, kind):
    base = tag.split(":")[0]
    out = set()
    if base.startswith("C"):
        out.add(base)
    if kind == "TWCC" and base in ("C04", "C02"):
        out.add("C13")
        out.add("C16")   # run-length and status-vector chunks, 1- and 2-octet deltas as they sit in a feedback packet
    if kind == "REMB" and tag in ("C02:roundtrip_value", "C03:bytes", "C04:value", "C04:valid_rejected"):
        out.add("C14")
    if tag == "C02:own_output_rejected":
        out.add("C10")   # "the same for ... the same packet after an encode/decode round trip": there is none if its own encoding is refused
    if kind == "REMB" and tag in ("C03:marshalto_bytes", "C08:marshalto_short_buffer_accepted"):
        out.add("C14")   # the count octet and the bitrate words of MarshalTo are REMB coding
    if kind == "REMB" and tag == "C18:packet_modified":
        out.add("C14")   # a read-only call that rewrites the decoded Bitrate: the packet no longer holds mantissa x 2^exponent
    if kind == "XR" and tag == "C18:parts_of_a_packet_share_memory":
        out.add("C15")   # blocks "decode ... independently of their neighbours"
    if tag == "C18:parts_of_a_packet_share_memory":
        out.add("C04")   # the fields Unmarshal extracted are the caller's: growing one list must not rewrite another
    if kind == "XR" and base in ("C02", "C03", "C04"):
        out.add("C15")
    if (kind in ("NACK", "FIR") and base in ("C02", "C03", "C04")) or (kind == "SLI" and tag in ("C02:roundtrip_value", "C04:value")):
        out.add("C16")
    if kind == "DGRAM" and tag == "C04:valid_rejected":
        out.update(("C06", "C07"))   # a datagram of well-formed frames must come back as one packet per frame, each of its registered kind
    if kind == "CP" and tag in ("C02:wf_rejected", "C05:marshalsize", "C05:marshalsize_vs_output", "C10:dest"):
        out.add("C11")
    return out

def n(tier, quick, thorough):
    return quick if tier == "quick" else thorough

PROPS = {}

def prop(pid, stages, **kw):
    PROPS[pid] = dict(stages=stages, **kw)

WIRE_NOTE = "McWire enumerates every value of the star domains of spec/Domain.tla (all 15 packet kinds: one field at a time) and McWirePairs the pairwise domains (two fields or list lengths varied together, the varied element in the middle of a list); every emitted behaviour is replayed; random drivers add sampled values"

prop("C01", lambda t, s: [("conc", n(t, 1, 10)), ("conc", n(t, 1, 10)), ("conc", n(t, 1, 10)), ("drive", "sizes", 0), ("drive", "soak", n(t, 70000, 300000)), ("mc", "Mc", n(t, "McFaults", "McFaults2")), ("mc", "Mc", "McFaultsDev"), ("drive", "fuzz", n(t, 1500, 40000)), ("drive", "bigdec", n(t, 2, 1)), ("drive", "amplify", 0)],
     exhaustive_note="McFaults enumerates every first-order fault of spec/Faults.tla on the tiny domain; every faulted buffer goes to all 16 packet decoders, 7 sub-decoders and the datagram decoder; McFaultsDev does the same from the encodings of the deviating model (SLI with PT 205, CCFB num_reports n-1), which are the ones the library's SLI and CCFB decoders accept")
prop("C02", lambda t, s: [("mc", "Mc", "McWireUnk"), ("drive", "sizes", 0), ("drive", "dict", 0), ("mc", "Mc", "McWire"), ("mc", "Mc", "McWirePairs"), ("mc", "Mc", "McReuse"), ("drive", "reuserand", n(t, 300, 10000)), ("drive", "rt", n(t, 1500, 60000)), ("drive", "rtlist", n(t, 300, 10000)), ("drive", "bigframes", n(t, 0, 1)), ("drive", "recombine", n(t, 300, 10000))], exhaustive_note=WIRE_NOTE)
prop("C03", lambda t, s: [("drive", "rtlist", n(t, 300, 10000)), ("drive", "sizes", 0), ("drive", "dict", 0), ("mc", "Mc", "McWire"), ("mc", "Mc", "McWirePairs"), ("mc", "Mc", "McVariants"), ("drive", "rt", n(t, 1500, 60000)), ("drive", "bigframes", n(t, 0, 1)), ("mc", "Mc", n(t, "McCompound", "McCompound4")), ("drive", "cprand", n(t, 200, 10000)), ("mc", "Mc", "McLoose"), ("drive", "errpaths", n(t, 200, 10000))], exhaustive_note=WIRE_NOTE)
prop("C05", lambda t, s: [("mc", "Mc", "McLimits"), ("drive", "dict", 0), ("drive", "sizes", 0), ("mc", "Mc", "McWire"), ("mc", "Mc", "McWirePairs"), ("drive", "rt", n(t, 1500, 60000)), ("drive", "rtlist", n(t, 300, 10000)), ("drive", "bigframes", n(t, 0, 1)), ("drive", "cprand", n(t, 200, 10000)), ("mc", "Mc", "McLoose")], exhaustive_note=WIRE_NOTE)
prop("C09", lambda t, s: [("conc", n(t, 1, 10)), ("mc", "Mc", "McForeignPairs"), ("drive", "dict", 0), ("mc", "Mc", n(t, "McFaults", "McFaults2")), ("mc", "Mc", "McFaultsDev"), ("drive", "fuzzdgram", n(t, 8000, 300000))],
     exhaustive_note="McFaults enumerates every first-order fault on the tiny domain and follows every accepted datagram through Marshal and a second decode")
prop("C10", lambda t, s: [("drive", "dict", 0), ("mc", "Mc", "McWireUnk"), ("mc", "Mc", "McWire"), ("mc", "Mc", "McWirePairs"), ("mc", "Mc", "McReuse"), ("mc", "Mc", n(t, "McHist", "McHist4")), ("drive", "histrand", n(t, 300, 10000)), ("mc", "Mc", n(t, "McCompound", "McCompound4")), ("drive", "rt", n(t, 1500, 60000)), ("drive", "cprand", n(t, 300, 20000))],
     exhaustive_note=WIRE_NOTE + "; McCompound gives every member sequence of up to 3 (thorough: 4) over 14 representative kinds to CompoundPacket.DestinationSSRC")

DEFAULT_LEVEL = ("Bounded exhaustive model checking of the TLA+ specification (the property's invariants hold in every reachable state of the bounded "
                 "configuration) plus conformance: every behaviour TLC emitted is replayed on the real code and every recorded call of the real code "
                 "(enumerated and seeded-random inputs) is checked by TLC against the specification's action for that call. Assurance is exhaustive "
                 "within the stated bounds and sampled beyond them.")
DEFAULT_NOTE = ("Trusted: harness/abs field copies, the RFC reading in spec/*.tla (DESIGN.md Appendix A), TLC. The specification is bound to the code only "
                "through executions actually performed; inputs outside the enumerated domains and drivers are not covered.")
NOT_YET = {}

prop("C04", lambda t, s: [("mc", "Mc", "McForeignPairs"), ("drive", "dict", 0), ("mc", "Mc", "McVariants"), ("mc", "TwccAlg", n(t, "McTwcc", "McTwccThorough")), ("mc", "Mc", n(t, "McFaults", "McFaults2")), ("mc", "Mc", "McFaultsDev"), ("drive", "fuzz", n(t, 1200, 40000)), ("drive", "amplify", 0)],
     exhaustive_note="McVariants enumerates every alternative and count-inflated encoding of spec/Variants.tla over VarDom/InflateDom; McFaults every first-order fault on the tiny domain")
prop("C06", lambda t, s: [("mc", "Datagram", n(t, "McDatagram", "McDatagram3")), ("mc", "Mc", n(t, "McDgram", "McDgram3")), ("drive", "frameseq", n(t, 600, 30000)), ("drive", "bigframes", n(t, 0, 1)), ("drive", "amplify", 0)],
     exhaustive_note="McDgram enumerates every sequence of up to 2 (thorough: 3) pieces over the frame set of spec/Domain.tla (valid frames of every kind, raw frames, malformed frames, incomplete tails)")
prop("C07", lambda t, s: [("drive", "sizes", 0), ("mc", "Mc", "McForeignPairs"), ("drive", "dict", 0), ("mc", "Mc", n(t, "McDispatch", "McDispatchAll")), ("mc", "Mc", "McForeign"), ("mc", "Mc", "McWire"), ("drive", "fuzz", n(t, 600, 20000)), ("drive", "amplify", 0)],
     exhaustive_note="McDispatch enumerates 28 packet types (thorough: all 256) x 32 FMT values x 4 bodies; McForeign gives every star-domain encoding to all 16 decoders")
prop("C08", lambda t, s: [("drive", "sizes", 0), ("mc", "Mc", "McLimits"), ("drive", "limits", n(t, 1000, 60000)), ("mc", "Mc", "McLoose")],
     exhaustive_note="McLimits enumerates the values at, just below and just above every wire limit named by the property (LimitDom of spec/Domain.tla)")

prop("C11", lambda t, s: [("mc", "Mc", n(t, "McCompound", "McCompound4")), ("drive", "cprand", n(t, 600, 30000))],
     exhaustive_note="McCompound enumerates every sequence of up to 3 (thorough: 4) members over the 14 representative kinds of CpKinds (spec/Domain.tla): SR, RR with and without report blocks, six SDES shapes, BYE, feedback, APP, XR, Raw")

prop("C12", lambda t, s: [("conc", n(t, 1, 10)), ("mc", "NackAlg", n(t, "McNack", "McNackThorough")), ("drive", "nackrand", n(t, 1500, 60000)), ("drive", "sweeps12", n(t, 65537, 1))],
     exhaustive_note="McNack enumerates every list of up to 3 sequence numbers over 17 (thorough: 26) boundary values, Range with every stop position on every pair built from lists of up to 2, and the complete 2^16 bitmap table at 2 (thorough: 6) packet IDs")

prop("C13", lambda t, s: [("drive", "dict", 0), ("mc", "Mc", "McReuse"), ("mc", "TwccAlg", n(t, "McTwcc", "McTwccThorough")), ("mc", "TwccAlg", "McTwcc3"), ("drive", "twccfuzz", n(t, 3000, 100000)), ("drive", "fuzz", n(t, 400, 10000)), ("drive", "amplify", 0)],
     exhaustive_note="McTwcc enumerates every status sequence of length 0..5 (thorough: 0..7) over {not received, small, large} in every chunking (run-length splits, 1-bit and 2-bit vectors, run-length overshoot 1 and 8191), plus two-run sequences with run lengths straddling 7 and 14 in six systematic chunkings; McTwcc3 does the same over four symbols (including the reserved symbol 3) up to length 4")

prop("C14", lambda t, s: [("drive", "dict", 0), ("mc", "RembAlg", n(t, "McRemb", "McRembThorough")), ("mc", "Mc", "McWireRemb"), ("mc", "Mc", "McReuseDev"), ("drive", "rembrand", n(t, 300, 20000)), ("drive", "sweeps14", n(t, 65537, 1)), ("drive", "amplify", 0)],
     exhaustive_note="McRemb steps the decoder loop on 53 structured mantissas x 5 exponents and the encoder loop on 128 boundary floats, and emits the complete 2^18 mantissa table at exponent 0 (thorough: at 0, 1, 31, 62, 63) plus the structured rows at 6 (thorough: all 64) exponents; the scaling lemma RowOK extends the exponent-0 table to the other exponents; the encoder is covered by the complete table of the 2^18 integers (thorough: also the 2^17 leading-18-bit values at one exponent) plus Go sweeps of the lemmas EncLemmas over all floats of each range (exhaustive in the thorough tier, every 4097th in the quick tier)")

prop("C15", lambda t, s: [("drive", "dict", 0), ("mc", "Mc", "McWirePairs"), ("mc", "Mc", "McWireUnk"), ("mc", "XrWalk", n(t, "McXr", "McXrThorough")), ("mc", "Mc", "McWireXr"), ("drive", "xrrand", n(t, 1500, 60000)), ("drive", "bigframes", n(t, 0, 1)), ("drive", "amplify", 0)],
     exhaustive_note="McXr enumerates every sequence of 0..2 (thorough: 0..3) report blocks over 17 block choices (the 7 defined kinds, unknown types 0, 8, 255 with different contents, empty and longer lists, other flag combinations) and walks each encoding with an independent block walker; McWireXr sweeps the XR star domain")

prop("C16", lambda t, s: [("drive", "dict", 0), ("mc", "UnitsMc", "McUnitsThorough"), ("mc", "Mc", "McWireUnits"), ("mc", "Mc", "McWirePairs"), ("drive", "units", n(t, 2000, 50000)), ("drive", "sweeps16", n(t, 65537, 1)), ("mc", "Mc", "McLoose")],
     exhaustive_note="McUnits checks and emits rows of 256 consecutive wire words of the 2^16 tables of run-length chunks, status-vector chunks, 2-octet deltas, metric blocks, RLE chunks and header lengths (all 256 rows of each, in both tiers), the complete 1-octet delta table and the header octet-0 x PT table; the thorough tier adds exhaustive Go sweeps of all 2^24 loss counts, all 2^32 header words, NACK pairs and SLI words (quick: every 65537th)")

prop("C17", lambda t, s: [("drive", "dict", 0), ("mc", "Mc", "McWire"), ("mc", "Mc", "McWirePairs"), ("mc", "Mc", n(t, "McFaults", "McFaults2")), ("mc", "Mc", "McFaultsDev"), ("drive", "strings", n(t, 1500, 60000)), ("drive", "fuzz", n(t, 600, 30000)), ("drive", "cprand", n(t, 200, 10000))],
     exhaustive_note="String(), %v and %+v are applied to every star-domain value, to every packet any decoder accepted from the first-order faulted buffers, to all 256 values of PacketType, SDESType, BlockTypeType and TTLorHopLimitType, to all 2^16 XR chunks, and to REMB bitrates at every power of two and ten")

prop("C18", lambda t, s: [("mc", "Mc", "McLoose"), ("drive", "soak", n(t, 70000, 300000)), ("mc", "ConcurrencyMc", "McConc"), ("mc_broken", "ConcurrencyMc", "McConcBroken"), ("mc", "Mc", n(t, "McHist", "McHist4")), ("mc", "Mc", "McReuse"), ("mc", "Mc", "McReuseDev"),
                          ("drive", "histrand", n(t, 600, 30000)), ("drive", "reuserand", n(t, 600, 30000)), ("conc", n(t, 2, 40)), ("conc", n(t, 2, 40)), ("conc", n(t, 2, 40)), ("drive", "recombine", n(t, 200, 10000)), ("drive", "errpaths", n(t, 400, 20000))],
     exhaustive_note="McConc enumerates every interleaving of 3 goroutines x 2 calls (Begin/End steps) over 2 shared and 2 private packet values; McHist every call history of up to 3 (thorough: 4) calls out of 9 operations on 13 packet values; real schedules are sampled under the race detector",
     assumptions=["the Go race detector reports only the races that occur in the sampled schedules"])

# vacuity guard: the least number of distinct behaviours each configuration must emit for replay
MIN_BEHAVIOURS = {"McLoose": 80, "McTwcc3": 3500, "McWirePairs": 1300, "McForeignPairs": 1300, "McWireUnk": 700, "McFaultsDev": 400, "McWire": 900, "McFaults": 3000, "McFaults2": 20000, "McLimits": 80, "McVariants": 250, "McForeign": 800, "McDispatch": 3000,
                  "McDispatchAll": 30000, "McDgram": 600, "McDgram3": 10000, "McCompound": 5000, "McCompound4": 50000, "McNack": 5000,
                  "McNackThorough": 15000, "McTwcc": 7000, "McTwccThorough": 50000, "McRemb": 2100, "McRembThorough": 5000, "McWireRemb": 100,
                  "McXr": 300, "McXrThorough": 4000, "McWireXr": 180, "McUnits": 200, "McUnitsThorough": 1500, "McWireUnits": 250,
                  "McHist": 5000, "McHist4": 20000, "McReuse": 500, "McReuseDev": 50}

# vacuity guard on the trace side: the least number of events of the classes a property's judgement rests on (quick tier numbers
# are 3 to 5 times these); fewer means a driver or script silently stopped exercising the property -> exit 2
REQUIRE_STATS = {
    "C01": {"dec_accepted": 5000, "unit_dec": 10000, "dec_undefined": 10000}, "C02": {"roundtrips": 3000, "wf_values": 1500},
    "C03": {"marshal_ok": 4000, "wf_values": 1500}, "C04": {"dec_valid": 5000, "dec_mustreject": 5000},
    "C05": {"size": 3000, "header": 1000}, "C06": {"dgram_mustreject": 500, "dgram_valid": 1000},
    "C07": {"dec_mustreject": 3000, "dgram_accepted": 2000}, "C08": {"marshal_err": 200, "marshal_ok": 100},
    "C09": {"roundtrips": 3000, "dgram_accepted": 3000}, "C10": {"dest": 3000}, "C11": {"validate": 1000, "cname": 1000},
    "C12": {"nack": 10000}, "C13": {"dec_accepted": 10000}, "C14": {"nack": 1000}, "C15": {"roundtrips": 1500},
    "C16": {"nack": 1000, "unit_enc": 500}, "C17": {"string": 5000}, "C18": {"wf_values": 3000, "string": 1000},
}
