#!/usr/bin/env python3
"""Regenerate the generated tables of DESIGN.md (between <!-- BEGIN x --> / <!-- END x --> markers)."""
import json, glob, os, re, sys
V = os.path.dirname(os.path.dirname(os.path.abspath(__file__)))
sys.path.insert(0, os.path.join(V, "bin"))
import props

def seeded_table():
    rows = ["| id | property | change | needs | detected by (quick checks; clauses) |", "|---|---|---|---|---|"]
    for d in sorted(glob.glob(os.path.join(V, "seeded", "*"))):
        mp = os.path.join(d, "meta.json")
        if not os.path.exists(mp):
            continue
        m = json.load(open(mp))
        det = "; ".join(f"{p}: {r['status'].lower()} {', '.join(sorted(set(t for t in r.get('tags', []) if t)))}".strip() for p, r in m.get("detected_by", {}).items())
        def cell(x):
            return re.sub(r"\s+", " ", str(x)).replace("|", "\\|")[:260]
        rows.append(f"| {os.path.basename(d)} | {m.get('property')} | {cell(m.get('summary',''))} | {cell(m.get('needs',''))} | {cell(det)} |")
    return "\n".join(rows)

def evidence_table():
    rows = ["| id | exhaustive configurations (distinct states / behaviours replayed) | drivers (events) | events validated | distinct cases | wall s |", "|---|---|---|---|---|---|"]
    for f in sorted(glob.glob(os.path.join(V, "evidence", "C*.json"))):
        e = json.load(open(f)); c = e["coverage"]
        mc = ", ".join(f"{m['config']} ({m.get('states','-')}/{m.get('behaviours_emitted','-')})" for m in c["model_checking"])
        dr = ", ".join(f"{d['driver']} ({d['events']})" for d in c["drivers"])
        rows.append(f"| {e['property_id']} ({e['tier']}) | {mc} | {dr} | {c['evaluations']} | {c['traces_validated_against_impl']} | {e['wall_s']} |")
    return "\n".join(rows)

def main():
    p = os.path.join(V, "DESIGN.md")
    s = open(p).read()
    for name, fn in (("SEEDED", seeded_table), ("EVIDENCE", evidence_table)):
        b, e = f"<!-- BEGIN {name} -->", f"<!-- END {name} -->"
        if b in s:
            s = s[:s.index(b) + len(b)] + "\n" + fn() + "\n" + s[s.index(e):]
    open(p, "w").write(s)

if __name__ == "__main__":
    main()
