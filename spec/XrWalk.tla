------------------------------- MODULE XrWalk -------------------------------
(* RFC 3611 report blocks are self-delimiting (C15).  An independent walker *)
(* that knows only the block header (BT, type-specific, length in words     *)
(* minus one) steps over the encoding of every sequence of 0..MaxBlocks     *)
(* blocks; TLC checks that it lands exactly on every block boundary, that   *)
(* every block carries its registered type, its size and its type-specific  *)
(* bits in the RFC positions, that each block decodes on its own slice      *)
(* (independently of its neighbours) to the value it was built from, and    *)
(* that blocks of unknown type are carried verbatim.                         *)
EXTENDS Domain, Json

CONSTANTS MaxBlocks

\* block choices: one value of each defined kind, unknown types, and variants
\* with other list lengths and flags
BlockChoices ==
  { XrB(b) : b \in XrKinds }
  \cup { [XrB("unk") EXCEPT !.type = t, !.ts = 255 - t, !.bytes = Ramp(4 * n, t)] : t \in {0, 255}, n \in {0, 2} }
  \cup { [XrB("lrle") EXCEPT !.chunks = << >>], [XrB("drle") EXCEPT !.chunks = << 1, 2, 3, 4 >>, !.t = 15],
         [XrB("prt") EXCEPT !.times = << >>], [XrB("dlrr") EXCEPT !.reports = << >>],
         [XrB("ss") EXCEPT !.l = FALSE, !.d = TRUE, !.j = FALSE, !.toh = 2] }
BlockSeqs == UNION { [1..n -> BlockChoices] : n \in 0..MaxBlocks }

VARIABLES v,        \* the XR value
          b,        \* its encoding
          off,      \* walker cursor (octet offset)
          seen,     \* blocks walked so far: [bt, ts, len, at]
          phase     \* "pick" | "walk" | "done"
xvars == << v, b, off, seen, phase >>
XInit == phase = "pick" /\ v = [k |-> "NONE"] /\ b = << >> /\ off = 0 /\ seen = << >>
Emit(rec) == PrintT(<< "VERIF_BEH", ToJson(rec) >>)

Pick == /\ phase = "pick" /\ \E s \in BlockSeqs : v' = MkXR(s) /\ b' = EncXR(MkXR(s))
        /\ off' = 8 /\ seen' = << >> /\ phase' = "walk"
WalkStep ==
  /\ phase = "walk"
  /\ UNCHANGED << v, b >>
  /\ IF off >= Len(b)
     THEN /\ phase' = "done" /\ UNCHANGED << off, seen >>
          /\ Emit([script |-> "rt", v |-> v])
     ELSE /\ seen' = Append(seen, [bt |-> At(b, off), ts |-> At(b, off + 1), len |-> 4 * (U16At(b, off + 2) + 1), at |-> off])
          /\ off' = off + 4 * (U16At(b, off + 2) + 1)
          /\ phase' = "walk"
XNext == Pick \/ WalkStep
XSpec == XInit /\ [][XNext]_xvars

\* the walker never leaves the packet and stays word-aligned
CursorOK == phase # "pick" => off <= Len(b) /\ off % 4 = 0 /\ Len(b) = 4 * (HLen(b) + 1)
\* block i starts where block i-1 ended, with its registered type and exact size
BlockHeaders == phase # "pick" =>
  \A i \in 1..Len(seen) :
     /\ i <= Len(v.blocks)
     /\ seen[i].bt = XrBT(v.blocks[i])
     /\ seen[i].len = XrBlockSize(v.blocks[i])
     /\ seen[i].ts = XrTS(v.blocks[i])
\* fixed-size kinds announce their RFC length: RRT 2, statistics summary 9, VoIP 8 (words minus one)
FixedLengths == \A i \in 1..Len(seen) :
  /\ (seen[i].bt = 4 => seen[i].len = 12) /\ (seen[i].bt = 6 => seen[i].len = 40) /\ (seen[i].bt = 7 => seen[i].len = 36)
  /\ (seen[i].bt \in {1, 2, 3} => seen[i].len >= 12) /\ (seen[i].bt = 5 => (seen[i].len - 4) % 12 = 0)
\* type-specific bits in the RFC 3611 positions
TypeSpecificBits == phase # "pick" => \A i \in 1..Len(seen) : LET bl == v.blocks[i] IN
  /\ (bl.bt \in {"lrle", "drle", "prt"} => seen[i].ts \div 16 = 0 /\ seen[i].ts % 16 = bl.t)
  /\ (bl.bt = "ss" => Bits(seen[i].ts, 7, 1) = BoolBit(bl.l) /\ Bits(seen[i].ts, 6, 1) = BoolBit(bl.d)
                      /\ Bits(seen[i].ts, 5, 1) = BoolBit(bl.j) /\ Bits(seen[i].ts, 3, 2) = bl.toh /\ seen[i].ts % 8 = 0)
  /\ (bl.bt \in {"rrt", "dlrr", "voip"} => seen[i].ts = 0)
\* complete walk: every block was found and the cursor ends at the packet end
WalkComplete == phase = "done" => off = Len(b) /\ Len(seen) = Len(v.blocks)
\* each block decodes from its own slice alone to the value it was built from
Independent == phase = "done" =>
  \A i \in 1..Len(seen) : LET r == DecXrBlock(b, seen[i].at, seen[i].len) IN r.ok /\ r.bl = v.blocks[i]
\* the whole packet decodes to the value, and unknown blocks are verbatim
WholeDecodes == phase = "done" => DecXR(b) = Ok(v)
UnknownVerbatim == phase = "done" => \A i \in 1..Len(seen) : v.blocks[i].bt = "unk" =>
  Sl(b, seen[i].at + 4, seen[i].len - 4) = v.blocks[i].bytes /\ seen[i].bt = v.blocks[i].type /\ seen[i].ts = v.blocks[i].ts
=============================================================================
