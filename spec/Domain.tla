------------------------------- MODULE Domain -------------------------------
(* Bounded value sets for the exhaustive configurations (DESIGN.md 3.2).    *)
(* Star domains: one base value per kind with distinct octets in every      *)
(* field (so a byte-order or offset error shows), then one field at a time  *)
(* set to all-zero, all-ones, walking bits and the boundaries of its wire   *)
(* width; list-valued fields take the lengths 0, 1, 2, 3, max-1, max.       *)
(* Tiny domains: two or three small values per kind for sequence-valued     *)
(* models (datagrams, compounds, fault machine, call histories).            *)
EXTENDS Wire

D4(n)   == << n, n + 1, n + 2, n + 3 >>
D8(n)   == << n, n + 1, n + 2, n + 3, n + 4, n + 5, n + 6, n + 7 >>
U32Set  == { << 0, 0, 0, 0 >>, << 255, 255, 255, 255 >>, << 128, 0, 0, 0 >>, << 0, 0, 0, 1 >>, << 0, 255, 0, 255 >> }
U64Set  == { Zeros(8), Fill(8, 255), << 128, 0, 0, 0, 0, 0, 0, 1 >> }
Pow2Set(n) == { 2 ^ i : i \in 0..(n - 1) }
Walk(n) == {0, 2 ^ n - 1} \cup Pow2Set(n)          \* all-zero, all-ones, each single bit of an n-bit field
U16Set  == Walk(16) \cup {258, 65534}
U8Set   == Walk(8) \cup {254}
Ramp(n, k) == [i \in 1..n |-> (k + i) % 256]       \* n distinguishable octets
Vary(base, f, S) == { [base EXCEPT ![f] = x] : x \in S }
ListLens(max) == {0, 1, 2, 3, max - 1, max}

---------------------------------------------------------------------------
BaseRB == [ ssrc |-> D4(17), fl |-> 85, lost |-> << 0, 33, 34, 35 >>, seq |-> D4(49),
            jit |-> D4(65), lsr |-> D4(81), dlsr |-> D4(97) ]
RBn(i) == [BaseRB EXCEPT !.ssrc = << i % 256, 200, 100 + i \div 256, i % 256 >>, !.fl = i % 256]
RBs(n) == [i \in 1..n |-> RBn(i)]
RBDom  == {BaseRB} \cup Vary(BaseRB, "ssrc", U32Set) \cup Vary(BaseRB, "fl", U8Set)
          \cup Vary(BaseRB, "lost", { << 0, 0, 0, 0 >>, << 0, 255, 255, 255 >>, << 0, 128, 0, 0 >>, << 0, 0, 0, 1 >>, << 0, 0, 1, 0 >> })
          \cup Vary(BaseRB, "seq", U32Set) \cup Vary(BaseRB, "jit", U32Set)
          \cup Vary(BaseRB, "lsr", U32Set) \cup Vary(BaseRB, "dlsr", U32Set)

BaseSR == [ k |-> "SR", ssrc |-> D4(1), ntp |-> D8(5), rtp |-> D4(13), pc |-> D4(129), oc |-> D4(145),
            reports |-> RBs(1), ext |-> << >> ]
SRDom  == {BaseSR} \cup Vary(BaseSR, "ssrc", U32Set) \cup Vary(BaseSR, "ntp", U64Set) \cup Vary(BaseSR, "rtp", U32Set)
          \cup Vary(BaseSR, "pc", U32Set) \cup Vary(BaseSR, "oc", U32Set)
          \cup { [BaseSR EXCEPT !.reports = RBs(n)] : n \in ListLens(31) }
          \cup { [BaseSR EXCEPT !.reports = << r >>] : r \in RBDom }
          \cup { [BaseSR EXCEPT !.ext = Ramp(4 * n, 160)] : n \in 1..3 }
          \cup { [BaseSR EXCEPT !.reports = RBs(n), !.ext = Ramp(8, 7)] : n \in {0, 31} }

BaseRR == [ k |-> "RR", ssrc |-> D4(1), reports |-> RBs(1), ext |-> << >> ]
RRDom  == {BaseRR} \cup Vary(BaseRR, "ssrc", U32Set)
          \cup { [BaseRR EXCEPT !.reports = RBs(n)] : n \in ListLens(31) }
          \cup { [BaseRR EXCEPT !.reports = << r >>] : r \in RBDom }
          \cup { [BaseRR EXCEPT !.ext = Ramp(n, 160)] : n \in 1..9 }
          \cup { [BaseRR EXCEPT !.reports = RBs(n), !.ext = Ramp(m, 7)] : n \in {0, 31}, m \in {5, 8} }

---------------------------------------------------------------------------
Item(t, n)   == [t |-> t, text |-> Ramp(n, 96)]
Chunk1(i, its) == [src |-> << i, 1, 2, i >>, items |-> its]
BaseSDES == [ k |-> "SDES", chunks |-> << Chunk1(1, << Item(1, 5) >>) >> ]
SDESDom ==
  {BaseSDES}
  \cup { [k |-> "SDES", chunks |-> [i \in 1..n |-> Chunk1(i, << Item(1, i % 7) >>)]] : n \in ListLens(31) }
  \cup { [k |-> "SDES", chunks |-> << Chunk1(1, << Item(1, n) >>) >>] : n \in (0..9) \cup {254, 255} }
  \cup { [k |-> "SDES", chunks |-> << Chunk1(1, << Item(t, 3) >>) >>] : t \in {1, 2, 7, 8, 9, 128, 255} }
  \cup { [k |-> "SDES", chunks |-> << Chunk1(1, [j \in 1..n |-> Item(j, j)]) >>] : n \in {0, 2, 3, 8} }
  \cup { [k |-> "SDES", chunks |-> << Chunk1(1, << Item(2, a) >>), Chunk1(2, << Item(1, b) >>) >>] : a \in 0..4, b \in 0..4 }
  \cup { [k |-> "SDES", chunks |-> << [src |-> s, items |-> << Item(1, 2) >>] >>] : s \in U32Set }

BaseBYE == [ k |-> "BYE", srcs |-> << D4(1) >>, reason |-> << >> ]
BYEDom ==
  {BaseBYE}
  \cup { [k |-> "BYE", srcs |-> [i \in 1..n |-> << i, 9, 8, i >>], reason |-> Ramp(m, 64)] : n \in ListLens(31), m \in {0, 3} }
  \cup { [BaseBYE EXCEPT !.reason = Ramp(m, 64)] : m \in (1..9) \cup {254, 255} }
  \cup { [BaseBYE EXCEPT !.srcs = << s >>] : s \in U32Set }

BaseAPP == [ k |-> "APP", st |-> 21, ssrc |-> D4(1), name |-> << 78, 65, 77, 69 >>, data |-> << >> ]
APPDom ==
  {BaseAPP} \cup Vary(BaseAPP, "st", Walk(5)) \cup Vary(BaseAPP, "ssrc", U32Set)
  \cup Vary(BaseAPP, "name", { Zeros(4), Fill(4, 255), D4(1) })
  \cup { [BaseAPP EXCEPT !.data = Ramp(n, 32)] : n \in (1..9) \cup {255, 256, 257} }

---------------------------------------------------------------------------
Fb(k) == [k |-> k, sender |-> D4(1), media |-> D4(5)]
FixDom(k) == {Fb(k)} \cup Vary(Fb(k), "sender", U32Set) \cup Vary(Fb(k), "media", U32Set)
RRRDom == FixDom("RRR")
PLIDom == FixDom("PLI")

Pair(p, b) == [pid |-> p, blp |-> b]
BaseNACK == [ k |-> "NACK", sender |-> D4(1), media |-> D4(5), nacks |-> << Pair(258, 772) >> ]
NACKDom ==
  {BaseNACK} \cup Vary(BaseNACK, "sender", U32Set) \cup Vary(BaseNACK, "media", U32Set)
  \cup { [BaseNACK EXCEPT !.nacks = << Pair(p, 772) >>] : p \in U16Set }
  \cup { [BaseNACK EXCEPT !.nacks = << Pair(258, b) >>] : b \in U16Set }
  \cup { [BaseNACK EXCEPT !.nacks = [i \in 1..n |-> Pair(i, 65535 - i)]] : n \in {1, 2, 3, 252, 253} }

Sli(f, n, p) == [first |-> f, number |-> n, pic |-> p]
BaseSLI == [ k |-> "SLI", sender |-> D4(1), media |-> D4(5), sli |-> << Sli(4660 % 8192, 1383, 42) >> ]
SLIDom ==
  {BaseSLI} \cup Vary(BaseSLI, "sender", U32Set) \cup Vary(BaseSLI, "media", U32Set)
  \cup { [BaseSLI EXCEPT !.sli = << Sli(f, 0, 0) >>] : f \in Walk(13) }
  \cup { [BaseSLI EXCEPT !.sli = << Sli(0, n, 0) >>] : n \in Walk(13) }
  \cup { [BaseSLI EXCEPT !.sli = << Sli(0, 0, p) >>] : p \in Walk(6) }
  \cup { [BaseSLI EXCEPT !.sli = << Sli(8191, 8191, 63) >>] }
  \cup { [BaseSLI EXCEPT !.sli = [i \in 1..n |-> Sli(i, 8191 - i, i % 64)]] : n \in {1, 2, 3, 252, 253} }

Fir(s, q) == [ssrc |-> s, seq |-> q]
BaseFIR == [ k |-> "FIR", sender |-> D4(1), media |-> D4(5), fir |-> << Fir(D4(9), 77) >> ]
FIRDom ==
  {BaseFIR} \cup Vary(BaseFIR, "sender", U32Set) \cup Vary(BaseFIR, "media", U32Set)
  \cup { [BaseFIR EXCEPT !.fir = << Fir(s, 77) >>] : s \in U32Set }
  \cup { [BaseFIR EXCEPT !.fir = << Fir(D4(9), q) >>] : q \in U8Set }
  \cup { [BaseFIR EXCEPT !.fir = [i \in 1..n |-> Fir(<< i, 3, 2, i >>, i)]] : n \in {1, 2, 3, 31, 32} }

\* float32 triples around every REMB boundary: below 1, mantissa widths,
\* the 2^18 normalisation point, mantissa carries, the saturation point
FloatDom ==
  { [s |-> 0, e |-> e, f |-> f] :
      e \in {0, 1, 126, 127, 128, 143, 144, 145, 146, 150, 151, 190, 206, 207, 208, 254},
      f \in {0, 1, 63, 64, 4194304, 8388544, 8388607} }
BaseREMB == [ k |-> "REMB", sender |-> D4(1), br |-> [s |-> 0, e |-> 146, f |-> 1193046], ssrcs |-> << D4(9) >> ]
REMBDom ==
  {BaseREMB} \cup Vary(BaseREMB, "sender", U32Set) \cup Vary(BaseREMB, "br", FloatDom)
  \cup { [BaseREMB EXCEPT !.ssrcs = [i \in 1..n |-> << i, 5, 6, i >>]] : n \in {0, 1, 2, 3, 254, 255} }
  \cup { [BaseREMB EXCEPT !.ssrcs = << s >>] : s \in U32Set }

---------------------------------------------------------------------------
Mb(r, e, a) == [r |-> r, ecn |-> e, ato |-> a]
MbDom == { Mb(FALSE, 0, 0) } \cup { Mb(TRUE, e, 0) : e \in 0..3 } \cup { Mb(TRUE, 0, a) : a \in Walk(13) } \cup { Mb(TRUE, 3, 8191) }
CcBlock(m, b, ms) == [media |-> m, begin |-> b, mbs |-> ms]
BaseCCFB == [ k |-> "CCFB", sender |-> D4(1), blocks |-> << CcBlock(D4(5), 258, << Mb(TRUE, 1, 291), Mb(FALSE, 0, 0) >>) >>, ts |-> D4(65) ]
CCFBDom ==
  {BaseCCFB} \cup Vary(BaseCCFB, "sender", U32Set) \cup Vary(BaseCCFB, "ts", U32Set)
  \cup { [BaseCCFB EXCEPT !.blocks = << CcBlock(D4(5), 258, << m, Mb(TRUE, 2, 5) >>) >>] : m \in MbDom }
  \cup { [BaseCCFB EXCEPT !.blocks = << CcBlock(D4(5), b, [i \in 1..n |-> Mb(TRUE, i % 4, i)]) >>] :
           n \in 0..6, b \in {0, 65530, 65535} }
  \cup { [BaseCCFB EXCEPT !.blocks = [i \in 1..n |-> CcBlock(<< i, 7, 7, i >>, i, [j \in 1..i |-> Mb(TRUE, 0, j)])]] : n \in 0..4 }
  \cup { [BaseCCFB EXCEPT !.blocks = << CcBlock(s, 1, << Mb(TRUE, 0, 1), Mb(TRUE, 0, 2) >>) >>] : s \in U32Set }

---------------------------------------------------------------------------
\* TWCC: values are derived from a status sequence and a chunking, so that
\* they are well-formed by construction (the chunkings are enumerated in
\* TwccAlg.tla; here a few fixed shapes for the wire-level sweep)
Rl(sym, run) == [ct |-> "rl", typ |-> 0, sym |-> sym, run |-> run]
Sv1(syms)    == [ct |-> "sv", typ |-> 1, ss |-> 0, syms |-> syms \o Zeros(14 - Len(syms))]
Sv2(syms)    == [ct |-> "sv", typ |-> 1, ss |-> 1, syms |-> syms \o Zeros(7 - Len(syms))]
Dl(t, k)     == [t |-> t, ticks |-> k, rem |-> 0, big |-> 0]
MkTWCC(count, chunks, deltas, p) ==
  LET v0 == [ k |-> "TWCC", hdr |-> [p |-> FALSE, c |-> 15, t |-> 205, len |-> 0], sender |-> D4(1), media |-> D4(5),
              base |-> 258, count |-> count, ref |-> << 0, 11, 12, 13 >>, fb |-> 99, chunks |-> chunks, deltas |-> deltas ]
  IN  [v0 EXCEPT !.hdr = [p |-> p /\ PadTWCC(v0) > 0, c |-> 15, t |-> 205, len |-> SizeTWCC(v0) \div 4 - 1]]
TWCCShapes ==
  { MkTWCC(0, << >>, << >>, FALSE),
    \* the run lengths add up to 65535, 65536 and 65537 (a sum that is 0 modulo 2^16) under a status count of 65535
    MkTWCC(65535, << Rl(0, 8191), Rl(0, 8191), Rl(0, 8191), Rl(0, 8191), Rl(0, 8191), Rl(0, 8191), Rl(0, 8191), Rl(0, 8191), Rl(0, 8) >>, << >>, FALSE),
    MkTWCC(65535, << Rl(0, 8191), Rl(0, 8191), Rl(0, 8191), Rl(0, 8191), Rl(0, 8191), Rl(0, 8191), Rl(0, 8191), Rl(0, 8191), Rl(0, 9) >>, << >>, FALSE),
    \* the last chunk is a status vector whose symbols reach past 65535 packets (a 16-bit counter of processed packets wraps)
    MkTWCC(65535, << Rl(0, 8191), Rl(0, 8191), Rl(0, 8191), Rl(0, 8191), Rl(0, 8191), Rl(0, 8191), Rl(0, 8191), Rl(0, 8191), Rl(0, 2), Sv2(<< 1, 0, 2, 0, 1 >>) >>,
           << Dl(1, 1), Dl(2, -2), Dl(1, 3) >>, FALSE),
    MkTWCC(65530, << Rl(0, 8191), Rl(0, 8191), Rl(0, 8191), Rl(0, 8191), Rl(0, 8191), Rl(0, 8191), Rl(0, 8191), Rl(0, 8191), Sv1(<< 1, 0 >>) >>, << Dl(1, 9) >>, FALSE),
    \* an even number of chunks and no deltas: the last chunk ends exactly where the packet ends
    MkTWCC(2, << Rl(0, 1), Rl(0, 1) >>, << >>, FALSE),
    MkTWCC(20, << Rl(0, 3), Sv1(<< 0, 0, 0 >>), Rl(0, 2), Sv2(<< 0 >>) >>, << >>, FALSE),
    MkTWCC(1, << Rl(0, 1) >>, << >>, FALSE),
    MkTWCC(1, << Rl(1, 1) >>, << Dl(1, 7) >>, FALSE),
    MkTWCC(1, << Rl(1, 1) >>, << Dl(1, 7) >>, TRUE),
    MkTWCC(1, << Rl(2, 1) >>, << Dl(2, -3) >>, FALSE),
    MkTWCC(2, << Rl(2, 2) >>, << Dl(2, 32767), Dl(2, -32768) >>, FALSE),
    MkTWCC(3, << Rl(1, 8191) >>, << Dl(1, 0), Dl(1, 255), Dl(1, 128) >>, TRUE),
    MkTWCC(3, << Sv2(<< 1, 2, 0 >>) >>, << Dl(1, 1), Dl(2, 513) >>, FALSE),
    MkTWCC(3, << Sv1(<< 1, 0, 1 >>) >>, << Dl(1, 1), Dl(1, 2) >>, FALSE),
    MkTWCC(14, << Sv1(<< 1, 1, 1, 1, 1, 1, 1, 1, 1, 1, 1, 1, 1, 1 >>) >>, [i \in 1..14 |-> Dl(1, i)], FALSE),
    MkTWCC(7, << Sv2(<< 2, 2, 2, 2, 2, 2, 2 >>) >>, [i \in 1..7 |-> Dl(2, 256 * i)], FALSE),
    MkTWCC(9, << Sv2(<< 1, 2, 3, 0, 1, 2, 3 >>), Rl(1, 2) >>, << Dl(1, 1), Dl(2, 2), Dl(1, 3), Dl(2, 4), Dl(1, 5), Dl(1, 6) >>, FALSE),
    MkTWCC(20, << Rl(0, 5), Sv1(<< 1, 0, 0, 0, 0, 0, 0, 0, 0, 0, 0, 0, 0, 1 >>), Rl(2, 1) >>, << Dl(1, 9), Dl(1, 8), Dl(2, -1) >>, TRUE),
    MkTWCC(65535, << Rl(0, 8191), Rl(0, 8191), Rl(0, 8191), Rl(0, 8191), Rl(0, 8191), Rl(0, 8191), Rl(0, 8191), Rl(0, 8191), Rl(0, 7) >>, << >>, FALSE),
    \* status counts near 2^16 with a final run that overshoots: processed + run length passes 65535
    MkTWCC(57440, << Rl(0, 8191), Rl(0, 8191), Rl(0, 8191), Rl(0, 8191), Rl(0, 8191), Rl(0, 8191), Rl(0, 8191), Rl(0, 100), Rl(1, 8191) >>,
           << Dl(1, 1), Dl(1, 2), Dl(1, 3) >>, FALSE),
    MkTWCC(65535, << Rl(0, 8191), Rl(0, 8191), Rl(0, 8191), Rl(0, 8191), Rl(0, 8191), Rl(0, 8191), Rl(0, 8191), Rl(3, 8191), Rl(2, 8191) >>,
           [i \in 1..7 |-> Dl(2, i - 4)], TRUE),
    MkTWCC(65530, << Rl(0, 8191), Rl(0, 8191), Rl(0, 8191), Rl(0, 8191), Rl(0, 8191), Rl(0, 8191), Rl(0, 8191), Rl(0, 8191), Sv2(<< 1, 2 >>) >>,
           << Dl(1, 9), Dl(2, -9) >>, FALSE) }
\* 205/15 and 206/15 share their FMT: a well-formed TWCC feedback whose octets also have the REMB shape
\* (media SSRC 0, "REMB" where base sequence and status count are, a count octet matching the length)
TWCCLookalike == [ MkTWCC(19778, << Rl(0, 8191), Rl(0, 8191), Rl(0, 3396) >>, << >>, FALSE) EXCEPT
                     !.media = Zeros(4), !.base = 21061, !.ref = << 0, 2, 77, 66 >>, !.fb = 1 ]
TWCCDom ==
  TWCCShapes \cup { TWCCLookalike }
  \cup { [v EXCEPT !.sender = s] : v \in {MkTWCC(1, << Rl(1, 1) >>, << Dl(1, 7) >>, FALSE)}, s \in U32Set }
  \cup { [v EXCEPT !.media = s] : v \in {MkTWCC(1, << Rl(1, 1) >>, << Dl(1, 7) >>, FALSE)}, s \in U32Set }
  \cup { [v EXCEPT !.base = s] : v \in {MkTWCC(1, << Rl(1, 1) >>, << Dl(1, 7) >>, FALSE)}, s \in U16Set }
  \cup { [v EXCEPT !.fb = s] : v \in {MkTWCC(1, << Rl(1, 1) >>, << Dl(1, 7) >>, FALSE)}, s \in U8Set }
  \cup { [v EXCEPT !.ref = << 0 >> \o BE24(s)] : v \in {MkTWCC(1, << Rl(1, 1) >>, << Dl(1, 7) >>, FALSE)}, s \in {0, 1, 8388608, 16777215, 66051} }
  \cup { MkTWCC(1, << Rl(1, 1) >>, << Dl(1, t) >>, FALSE) : t \in U8Set }
  \cup { MkTWCC(1, << Rl(2, 1) >>, << Dl(2, t) >>, FALSE) : t \in {-32768, -32767, -256, -255, -1, 0, 1, 255, 256, 257, 32766, 32767} }
  \cup { MkTWCC(n, << Rl(s, r) >>, [i \in 1..(IF s \in {1, 2} THEN n ELSE 0) |-> Dl(s, i)], FALSE) :
           n \in {1, 2, 3, 4, 5}, s \in 0..3, r \in {5, 6, 8191} }

---------------------------------------------------------------------------
XrB(bt) ==
  CASE bt = "lrle" -> [bt |-> "lrle", t |-> 5, ssrc |-> D4(9), bs |-> 258, es |-> 772, chunks |-> << 16385, 32770 >>]
    [] bt = "drle" -> [bt |-> "drle", t |-> 10, ssrc |-> D4(9), bs |-> 258, es |-> 772, chunks |-> << 49155, 0 >>]
    [] bt = "prt"  -> [bt |-> "prt", t |-> 3, ssrc |-> D4(9), bs |-> 258, es |-> 772, times |-> << D4(33), D4(37) >>]
    [] bt = "rrt"  -> [bt |-> "rrt", ntp |-> D8(41)]
    [] bt = "dlrr" -> [bt |-> "dlrr", reports |-> << [ssrc |-> D4(49), lrr |-> D4(53), dlrr |-> D4(57)] >>]
    [] bt = "ss"   -> [bt |-> "ss", l |-> TRUE, d |-> FALSE, j |-> TRUE, toh |-> 1, ssrc |-> D4(9), bs |-> 258, es |-> 772,
                       lost |-> D4(61), dup |-> D4(65), minj |-> D4(69), maxj |-> D4(73), meanj |-> D4(77), devj |-> D4(81),
                       mint |-> 85, maxt |-> 86, meant |-> 87, devt |-> 88]
    [] bt = "voip" -> [bt |-> "voip", ssrc |-> D4(9), lr |-> 101, dr |-> 102, bd |-> 103, gd |-> 104, bdur |-> 26986, gdur |-> 27500,
                       rtd |-> 28014, esd |-> 28528, sl |-> 113, nl |-> 114, rerl |-> 115, gmin |-> 116, rf |-> 117, erf |-> 118,
                       moslq |-> 119, moscq |-> 120, rxc |-> 121, jbn |-> 31355, jbm |-> 31869, jba |-> 32383]
    [] bt = "unk"  -> [bt |-> "unk", type |-> 8, ts |-> 171, bytes |-> D4(201)]
XrKinds == {"lrle", "drle", "prt", "rrt", "dlrr", "ss", "voip", "unk"}
MkXR(bls) == [k |-> "XR", sender |-> D4(1), blocks |-> bls]
XrBlockDom ==
  { XrB(b) : b \in XrKinds }
  \cup { [XrB(b) EXCEPT !.t = t] : b \in {"lrle", "drle", "prt"}, t \in Walk(4) }
  \cup { [XrB(b) EXCEPT !.chunks = [i \in 1..(2 * n) |-> (40000 + i) % 65536]] : b \in {"lrle", "drle"}, n \in 0..3 }
  \cup { [XrB("lrle") EXCEPT !.chunks = << c, 0 >>] : c \in U16Set }
  \cup { [XrB(b) EXCEPT !.bs = x, !.es = 65535 - x] : b \in {"lrle", "prt", "ss"}, x \in {0, 1, 65535} }
  \cup { [XrB("prt") EXCEPT !.times = [i \in 1..n |-> << i, 1, 1, i >>]] : n \in 0..4 }
  \cup { [XrB("rrt") EXCEPT !.ntp = x] : x \in U64Set }
  \cup { [XrB("dlrr") EXCEPT !.reports = [i \in 1..n |-> [ssrc |-> << i, 2, 2, i >>, lrr |-> D4(i), dlrr |-> D4(100 + i)]]] : n \in 0..4 }
  \cup { [XrB("ss") EXCEPT !.l = l, !.d = d, !.j = j, !.toh = t] : l \in BOOLEAN, d \in BOOLEAN, j \in BOOLEAN, t \in 0..3 }
  \cup { [XrB("ss") EXCEPT !.mint = x, !.devt = 255 - x] : x \in {0, 255} }
  \cup { [XrB("voip") EXCEPT !.lr = x, !.rxc = 255 - x, !.jba = 257 * x] : x \in {0, 255, 128} }
  \cup { [XrB("unk") EXCEPT !.type = t, !.ts = s, !.bytes = Ramp(4 * n, 9)] : t \in {0, 8, 255}, s \in {0, 255}, n \in 0..2 }
XRDom ==
  { MkXR(<< >>) } \cup { MkXR(<< b >>) : b \in XrBlockDom }
  \cup { [MkXR(<< XrB("rrt") >>) EXCEPT !.sender = s] : s \in U32Set }
  \cup { MkXR(<< XrB(a), XrB(b) >>) : a \in XrKinds, b \in XrKinds }
  \cup { MkXR([i \in 1..7 |-> XrB(CHOOSE b \in XrKinds : XrBT(XrB(b)) = i)]) }
  \cup { MkXR(<< [XrB("unk") EXCEPT !.bytes = Ramp(n, 1)], XrB("rrt") >>) : n \in {65528, 65532, 65536} }

---------------------------------------------------------------------------
RawOf(pt, c, body) == [k |-> "RAW", bytes |-> << 128 + c, pt >> \o BE16(Len(body) \div 4) \o body]
RAWDom ==
  { RawOf(pt, c, Ramp(4 * n, 50)) : pt \in {0, 1, 199, 208, 255}, c \in {0, 31}, n \in {0, 1, 2} }
  \cup { RawOf(205, c, Ramp(8, 50)) : c \in (0..31) \ {1, 5, 11, 15} }
  \cup { RawOf(206, c, Ramp(8, 50)) : c \in (0..31) \ {1, 2, 4, 15} }
  \* unknown packets whose own first octet has the P bit and whose content ends like a padding (or does not)
  \cup { [k |-> "RAW", bytes |-> << 160 + c, pt >> \o BE16(Len(body) \div 4) \o body] :
           pt \in {199, 210}, c \in {0, 5}, body \in { << 1, 2, 3, 4, 0, 0, 0, 4 >>, << 1, 2, 3, 4, 0, 0, 0, 0, 0, 0, 0, 8 >>, << 0, 0, 0, 4 >>,
                                                     << 1, 2, 3, 1 >>, << 1, 2, 3, 4, 9, 9, 9, 4 >>, << 1, 2, 3, 4, 0, 0, 0, 0 >> } }

StarDom(k) ==
  CASE k = "SR" -> SRDom [] k = "RR" -> RRDom [] k = "SDES" -> SDESDom [] k = "BYE" -> BYEDom [] k = "APP" -> APPDom
    [] k = "NACK" -> NACKDom [] k = "RRR" -> RRRDom [] k = "TWCC" -> TWCCDom [] k = "CCFB" -> CCFBDom [] k = "PLI" -> PLIDom
    [] k = "SLI" -> SLIDom [] k = "FIR" -> FIRDom [] k = "REMB" -> REMBDom [] k = "XR" -> XRDom [] k = "RAW" -> RAWDom
AllKinds == PacketKinds \cup {"RAW"}
StarAll  == UNION { StarDom(k) : k \in AllKinds }

\* ---- tiny domains -----------------------------------------------------------
Tiny(k) ==
  CASE k = "SR" -> { [BaseSR EXCEPT !.reports = RBs(n)] : n \in {0, 1} }
    [] k = "RR" -> { [BaseRR EXCEPT !.reports = RBs(n)] : n \in {0, 1} } \cup { [BaseRR EXCEPT !.ext = Ramp(4, 3)], [BaseRR EXCEPT !.ext = << 222, 173, 190, 239, 202, 0, 0, 3 >>] }
    [] k = "SDES" -> { BaseSDES, [k |-> "SDES", chunks |-> << Chunk1(1, << Item(2, 2) >>) >>], [k |-> "SDES", chunks |-> << >>] }
    [] k = "BYE" -> { BaseBYE, [BaseBYE EXCEPT !.reason = Ramp(2, 64)] }
    [] k = "APP" -> { BaseAPP, [BaseAPP EXCEPT !.data = Ramp(5, 32)] }
    [] k = "NACK" -> { BaseNACK }
    [] k = "RRR" -> { Fb("RRR") }
    [] k = "PLI" -> { Fb("PLI") }
    [] k = "SLI" -> { BaseSLI }
    [] k = "FIR" -> { BaseFIR }
    [] k = "REMB" -> { BaseREMB }
    [] k = "CCFB" -> { BaseCCFB }
    [] k = "TWCC" -> { MkTWCC(1, << Rl(1, 1) >>, << Dl(1, 7) >>, FALSE), MkTWCC(3, << Sv2(<< 1, 2, 0 >>) >>, << Dl(1, 1), Dl(2, 513) >>, FALSE) }
    [] k = "XR" -> { MkXR(<< XrB("rrt") >>), MkXR(<< XrB("lrle"), XrB("unk") >>), MkXR(<< XrB("ss") >>), MkXR(<< XrB("voip") >>),
                     MkXR(<< XrB("dlrr"), XrB("prt") >>), MkXR(<< XrB("drle") >>) }
    [] k = "RAW" -> { RawOf(199, 3, Ramp(4, 50)) }
TinyAll == UNION { Tiny(k) : k \in AllKinds }

\* ---- receiver reuse: per kind, values whose lists differ in length and whose optional parts are
\* present in one and absent in the other (a decoder that appends to, or keeps, what the receiver held
\* shows on the ordered pairs of these) ------------------------------------------
ReuseDom(k) ==
  CASE k = "SR" -> { [BaseSR EXCEPT !.reports = RBs(n)] : n \in {0, 1, 2} } \cup { [BaseSR EXCEPT !.ext = Ramp(4, 3), !.ssrc = D4(77)] }
    [] k = "RR" -> { [BaseRR EXCEPT !.reports = RBs(n)] : n \in {0, 1, 2} } \cup { [BaseRR EXCEPT !.ext = Ramp(4, 3), !.ssrc = D4(77)] }
    [] k = "SDES" -> Tiny("SDES") \cup { [k |-> "SDES", chunks |-> << Chunk1(1, << Item(2, 1) >>), Chunk1(2, << Item(1, 3), Item(3, 2) >>) >>] }
    [] k = "BYE" -> Tiny("BYE") \cup { [k |-> "BYE", srcs |-> << >>, reason |-> << >>], [k |-> "BYE", srcs |-> << D4(1), D4(9) >>, reason |-> Ramp(5, 70)] }
    [] k = "APP" -> Tiny("APP") \cup { [BaseAPP EXCEPT !.data = Ramp(8, 40), !.ssrc = D4(77)] }
    [] k = "NACK" -> { [BaseNACK EXCEPT !.nacks = [i \in 1..n |-> Pair(i, 65535 - i)]] : n \in {1, 2, 3} }
    [] k = "RRR" -> { Fb("RRR"), [Fb("RRR") EXCEPT !.sender = D4(77), !.media = D4(99)] }
    [] k = "PLI" -> { Fb("PLI"), [Fb("PLI") EXCEPT !.sender = D4(77), !.media = D4(99)] }
    [] k = "SLI" -> { [BaseSLI EXCEPT !.sli = [i \in 1..n |-> Sli(i, 8191 - i, i % 64)]] : n \in {1, 2, 3} }
    [] k = "FIR" -> { [BaseFIR EXCEPT !.fir = [i \in 1..n |-> Fir(<< i, 3, 2, i >>, i)]] : n \in {1, 2, 3} }
    [] k = "REMB" -> { [BaseREMB EXCEPT !.ssrcs = [i \in 1..n |-> << i, 5, 6, i >>]] : n \in {0, 1, 2, 3} }
                     \cup { [BaseREMB EXCEPT !.br = [s |-> 0, e |-> 150, f |-> 64]] }
    [] k = "CCFB" -> { [BaseCCFB EXCEPT !.blocks = [i \in 1..n |-> CcBlock(<< i, 7, 7, i >>, i, [j \in 1..i |-> Mb(TRUE, 0, j)])]] : n \in 0..3 }
    [] k = "TWCC" -> { MkTWCC(0, << >>, << >>, FALSE),
                       MkTWCC(1, << Rl(1, 1) >>, << Dl(1, 7) >>, FALSE),
                       MkTWCC(3, << Sv2(<< 1, 2, 0 >>) >>, << Dl(1, 1), Dl(2, 513) >>, FALSE),
                       MkTWCC(9, << Sv2(<< 1, 2, 3, 0, 1, 2, 3 >>), Rl(1, 2) >>, << Dl(1, 1), Dl(2, 2), Dl(1, 3), Dl(2, 4), Dl(1, 5), Dl(1, 6) >>, FALSE),
                       MkTWCC(5, << Rl(1, 5) >>, [i \in 1..5 |-> Dl(1, 4)], FALSE) }
    [] k = "XR" -> Tiny("XR") \cup { MkXR(<< >>), MkXR(<< XrB("rrt"), XrB("dlrr"), XrB("voip") >>),
                                     MkXR(<< [XrB("dlrr") EXCEPT !.reports = [i \in 1..3 |-> [ssrc |-> << i, 2, 2, i >>, lrr |-> D4(i), dlrr |-> D4(100 + i)]]] >>),
                                     MkXR(<< [XrB("lrle") EXCEPT !.chunks = [i \in 1..4 |-> 40000 + i]] >>),
                                     MkXR(<< [XrB("prt") EXCEPT !.times = [i \in 1..3 |-> << i, 1, 1, i >>]] >>) }
    [] k = "RAW" -> { RawOf(199, 3, Ramp(4, 50)), RawOf(199, 0, << >>), RawOf(208, 31, Ramp(8, 50)) }

\* ---- values at, just below and just above every wire limit (C08) ------------
LostVals == { << 0, 255, 255, 255 >>, << 1, 0, 0, 0 >>, << 1, 0, 0, 1 >>, << 1, 255, 255, 255 >>, << 2, 0, 0, 0 >>, << 255, 255, 255, 255 >> }
TextLens == {254, 255, 256, 300}
FloatLimits == { [s |-> 1, e |-> 0, f |-> 0], [s |-> 1, e |-> 0, f |-> 1], [s |-> 1, e |-> 127, f |-> 0], [s |-> 1, e |-> 254, f |-> 8388607],
                 [s |-> 1, e |-> 255, f |-> 0], [s |-> 0, e |-> 254, f |-> 8388607], [s |-> 0, e |-> 0, f |-> 1] }
\* a TWCC value with one delta (at position pos of n received packets) replaced
TwccWithDelta(n, pos, t, ticks) ==
  MkTWCC(n, << Rl(t, n) >>, [i \in 1..n |-> IF i = pos THEN Dl(t, ticks) ELSE Dl(t, 10 + i)], FALSE)
\* beyond a limit, counts that are small again modulo 256 (an 8-bit count field or variable wraps)
WrapCounts == {255, 256, 257, 261, 287, 288, 512}
LimitDom ==
  { [BaseSR EXCEPT !.reports = RBs(n)] : n \in {30, 31, 32, 33} \cup WrapCounts }
  \cup { [BaseRR EXCEPT !.reports = RBs(n)] : n \in {30, 31, 32, 33} \cup WrapCounts }
  \cup { [BaseSR EXCEPT !.reports = << [BaseRB EXCEPT !.lost = x] >>] : x \in LostVals }
  \* a member beyond its limit inside a compound (the compound must fail as a whole, not be repaired)
  \cup { [k |-> "CP", pkts |-> << [BaseRR EXCEPT !.reports = RBs(n)], BaseSDES >>] : n \in {31, 32, 40, 62, 63} }
  \cup { [k |-> "CP", pkts |-> << BaseRR, BaseSDES, [k |-> "BYE", srcs |-> [i \in 1..n |-> << i, 9, 8, i >>], reason |-> << >>] >>] : n \in {31, 32, 33} }
  \cup { [BaseRR EXCEPT !.reports = << RBn(1), [BaseRB EXCEPT !.lost = x] >>] : x \in LostVals }
  \cup { [k |-> "SDES", chunks |-> [i \in 1..n |-> Chunk1(i % 256, << Item(1, 2) >>)]] : n \in {30, 31, 32} \cup WrapCounts }
  \cup { [k |-> "SDES", chunks |-> << Chunk1(1, << Item(1, n) >>) >>] : n \in TextLens }
  \cup { [k |-> "SDES", chunks |-> << Chunk1(1, << Item(2, 3), Item(t, 3) >>) >>] : t \in {0, 1} }
  \cup { [k |-> "SDES", chunks |-> << Chunk1(1, << Item(0, 0) >>) >>] }
  \cup { [k |-> "BYE", srcs |-> [i \in 1..n |-> << i % 256, 9, 8, i \div 256 >>], reason |-> << >>] : n \in {30, 31, 32} \cup WrapCounts }
  \cup { [BaseBYE EXCEPT !.reason = Ramp(n, 64)] : n \in TextLens }
  \cup { [BaseAPP EXCEPT !.st = s] : s \in {30, 31, 32, 33, 255} }
  \cup { [BaseAPP EXCEPT !.name = Ramp(n, 64)] : n \in {0, 3, 4, 5} }
  \cup { [BaseREMB EXCEPT !.ssrcs = [i \in 1..n |-> << i % 256, 5, 6, i \div 256 >>]] : n \in {254, 255, 256, 257, 512} }
  \cup { [BaseREMB EXCEPT !.br = x] : x \in FloatLimits }
  \cup { [BaseCCFB EXCEPT !.blocks = << CcBlock(D4(5), 7, [i \in 1..n |-> Mb(TRUE, 0, i % 8192)]) >>] : n \in {16383, 16384, 16385} }
  \cup { TwccWithDelta(3, pos, 1, t) : pos \in 1..3, t \in {-1, 0, 255, 256, 300} }
  \* the same in the middle of a longer list (a bulk path for long lists must keep the range check)
  \cup { TwccWithDelta(n, 10, 1, t) : n \in {16, 17, 40}, t \in {-1, 255, 256} }
  \cup { TwccWithDelta(n, 10, 2, t) : n \in {16, 40}, t \in {-32769, 32767, 32768} }
  \cup { [BaseSR EXCEPT !.reports = [i \in 1..31 |-> IF i = 17 THEN [RBn(i) EXCEPT !.lost = x] ELSE RBn(i)]] : x \in { << 0, 255, 255, 255 >>, << 1, 0, 0, 0 >> } }
  \cup { [k |-> "SDES", chunks |-> [i \in 1..20 |-> Chunk1(i, << Item(1, IF i = 11 THEN n ELSE 2) >>)]] : n \in {255, 256} }
  \cup { TwccWithDelta(3, pos, 2, t) : pos \in 1..3, t \in {-32769, -32768, 32767, 32768, 70000} }
  \cup { [MkTWCC(1, << Rl(1, 1) >>, << Dl(1, 7) >>, FALSE) EXCEPT !.hdr.c = c] : c \in {32, 63} }
  \* a delta beyond its range next to a delta of the other size with the same tick count (an encoder that derives
  \* one delta's octets from its neighbour's must keep the range check of each)
  \cup { MkTWCC(2, << Sv2(<< 2, 1 >>) >>, << Dl(2, t), Dl(1, t) >>, FALSE) : t \in {-1, 256, 300, 511, 32767} }
  \cup { MkTWCC(3, << Sv2(<< 1, 2, 1 >>) >>, << Dl(1, 7), Dl(2, t), Dl(1, t) >>, FALSE) : t \in {256, 1000} }
  \cup { MkTWCC(3, << Sv2(<< 1, 1, 2 >>) >>, << Dl(1, 7), Dl(1, t), Dl(2, t) >>, FALSE) : t \in {-1, 256, 1000} }
  \cup { MkTWCC(3, << Rl(1, 3) >>, << Dl(1, 7), Dl(1, t), Dl(1, t) >>, FALSE) : t \in {-1, 256} }
  \* tick counts beyond 32 bits whose low 32 bits are inside the range (a narrowing conversion would accept them)
  \cup { MkTWCC(2, << Rl(t, 2) >>, << [Dl(t, k) EXCEPT !.big = g], Dl(t, 9) >>, FALSE) : t \in {1, 2}, k \in {0, 5, 255}, g \in {1, -1, 2, 65536} }

\* ---- values whose alternative encodings are enumerated (C04) --------------------
VarDom ==
  Vary(BaseREMB, "br", { [s |-> 0, e |-> e, f |-> f] : e \in {127, 128, 129, 131, 140, 146, 150, 170, 207}, f \in {0, 4194304, 6291456, 1193024} })
  \cup { [BaseAPP EXCEPT !.data = Ramp(n, 32)] : n \in 0..5 }
  \cup { [BaseFIR EXCEPT !.fir = [i \in 1..n |-> Fir(<< i, 3, 2, i >>, i)]] : n \in 1..3 }
  \cup { [k |-> "BYE", srcs |-> [i \in 1..n |-> << i, 9, 8, i >>], reason |-> << >>] : n \in {0, 1, 2, 31} }
  \cup { [BaseCCFB EXCEPT !.blocks = << CcBlock(D4(5), 258, ms) >>] :
           ms \in { << Mb(FALSE, 0, 0), Mb(TRUE, 1, 2) >>, << Mb(TRUE, 1, 2), Mb(FALSE, 0, 0), Mb(FALSE, 0, 0), Mb(TRUE, 0, 0) >>, << Mb(FALSE, 0, 0), Mb(FALSE, 0, 0) >> } }
  \cup { MkXR(<< b >>) : b \in { XrB(x) : x \in XrKinds } }
  \cup { MkXR(<< XrB("voip"), XrB("ss"), XrB("lrle") >>), MkXR(<< XrB("rrt"), XrB("dlrr"), XrB("prt"), XrB("unk") >>) }
\* minimal SR/RR/SDES/BYE values whose count-inflated encodings must be rejected
InflateDom ==
  { [BaseSR EXCEPT !.reports = RBs(n)] : n \in {0, 1, 2, 30} }
  \cup { [BaseRR EXCEPT !.reports = RBs(n)] : n \in {0, 1, 2, 30} }
  \cup { [k |-> "SDES", chunks |-> [i \in 1..n |-> Chunk1(i, << Item(1, i % 7) >>)]] : n \in {0, 1, 2, 30} }
  \cup { [k |-> "BYE", srcs |-> [i \in 1..n |-> << i, 9, 8, i >>], reason |-> << >>] : n \in {0, 1, 2, 30} }

\* ---- frames for the datagram machine (C06) and the dispatch sweep (C07) ----------
FirstOf(S) == CHOOSE x \in S : TRUE
ValidFrames ==
  { EncPacket({}, FirstOf(Tiny(k))) : k \in AllKinds }
  \cup { EncPacket({}, [BaseRR EXCEPT !.ext = Ramp(8, 3)]), EncPacket({}, [BaseSR EXCEPT !.ext = Ramp(4, 3)]),
         EncPacket({}, MkXR(<< XrB("lrle"), XrB("unk") >>)), EncPacket({}, RawOf(205, 3, Ramp(8, 50))),
         \* frames with the P bit set: an APP with unaligned data, a padded TWCC, a raw frame
         EncPacket({}, [BaseAPP EXCEPT !.data = Ramp(5, 32)]), EncPacket({}, MkTWCC(1, << Rl(1, 1) >>, << Dl(1, 7) >>, TRUE)),
         << 128 + 32 + 3, 199, 0, 1, 9, 9, 9, 4 >>,
         \* a receiver report and a sender report padded the RFC 3550 way (P bit, null octets, count in the last octet)
         << 128 + 32, 201, 0, 2, 1, 2, 3, 4, 0, 0, 0, 4 >>,
         << 128 + 32, 200, 0, 8 >> \o D4(1) \o D8(5) \o D4(13) \o D4(129) \o D4(145) \o << 0, 0, 0, 0, 0, 0, 0, 8 >> }
\* one frame whose length field also covers what would otherwise be the next packets: the surplus is a run of
\* complete, valid RTCP packets (a splitter that looks inside a frame for packets shows here)
SwallowFrames ==
  LET heads == { EncPacket({}, Fb("PLI")), EncPacket({}, Fb("RRR")), EncPacket({}, BaseBYE), RawOf(199, 3, Ramp(4, 50)).bytes }
      tails == { EncPacket({}, Fb("PLI")), EncPacket({}, BaseBYE), EncPacket({}, Fb("RRR")) \o EncPacket({}, BaseBYE) }
  IN { [i \in 1..(Len(a) + Len(b)) |-> IF i = 3 THEN ((Len(a) + Len(b)) \div 4 - 1) \div 256
                                        ELSE IF i = 4 THEN ((Len(a) + Len(b)) \div 4 - 1) % 256
                                        ELSE (a \o b)[i]] : a \in heads, b \in tails }
MalformedFrames ==
  { << 128, 200, 0, 1, 1, 2, 3, 4 >>,                                     \* framed SR too short for its sender info
    << 130, 201, 0, 1, 1, 2, 3, 4 >>,                                     \* RR whose count claims two blocks
    << 129, 205, 0, 2, 1, 2, 3, 4, 5, 6, 7, 8 >>,                         \* NACK without FCI
    << 65, 200, 0, 1, 1, 2, 3, 4 >>,                                      \* version 1
    << 129, 203, 0, 0 >> }                                                \* BYE claiming a source it does not hold
TailJunk ==
  { << 0 >>, << 0, 0, 0, 0 >>, Zeros(8),                                  \* surplus null octets (not a packet: version 0)
    << 23, 42, 153, 4 >>, << 23, 42, 153, 0, 0, 0, 0, 8 >>, << 0, 0, 0, 4 >>, \* surplus that ends like a padding (its last octet counts it)
    << 128 >>, << 128, 200, 0 >>, << 129, 206, 0, 2, 1, 2, 3, 4 >>,       \* PLI cut after 8 of 12 octets
    << 128, 200, 255, 255 >>,                                             \* header announcing 262144 octets
    \* length fields whose octet count wraps 16 bits: 4 * (0x3FFF + 1) = 65536, 4 * (0x4000 + 1) = 65540, 4 * (0x4001 + 1) = 65544
    << 128, 192, 63, 255 >>, << 128, 192, 64, 0 >>, << 129, 203, 64, 1, 1, 2, 3, 4 >>, << 129, 206, 64, 2, 1, 2, 3, 4, 5, 6, 7, 8 >> }
DispatchPTs(all) == IF all THEN 0..255 ELSE {0, 1, 72, 127, 128, 191, 192, 193, 194, 195, 196, 197, 198, 199, 200, 201, 202, 203, 204, 205, 206, 207, 208, 209, 210, 223, 254, 255}
NearestKind(pt, c) ==
  IF Kind({}, pt, c) # "RAW" THEN Kind({}, pt, c)
  ELSE IF pt = 205 THEN "NACK" ELSE IF pt = 206 THEN "PLI" ELSE "SR"
DispatchBodies(pt, c) ==
  { << >>, Zeros(8), Fill(8, 255), From(EncPacket({}, FirstOf(Tiny(NearestKind(pt, c)))), 4) }
DispatchFrame(pt, c, body) == EncHdr(FALSE, c, pt, Len(body) \div 4) \o body


\* ---- representative members for compound sequences (C11) ----------------------
CpKinds ==
  << BaseSR, BaseRR, [BaseRR EXCEPT !.reports = << >>],
     [k |-> "SDES", chunks |-> << Chunk1(1, << Item(1, 5) >>) >>],                              \* CNAME first
     [k |-> "SDES", chunks |-> << Chunk1(1, << Item(2, 2), Item(1, 3) >>) >>],                  \* CNAME as second item
     [k |-> "SDES", chunks |-> << Chunk1(1, << Item(2, 2) >>), Chunk1(2, << Item(1, 4) >>) >>], \* CNAME in second chunk
     [k |-> "SDES", chunks |-> << Chunk1(1, << Item(1, 1), Item(1, 6) >>) >>],                  \* two CNAMEs
     [k |-> "SDES", chunks |-> << Chunk1(1, << Item(2, 2) >>) >>],                              \* no CNAME
     [k |-> "SDES", chunks |-> << >>],                                                          \* no chunks
     BaseBYE, Fb("PLI"), BaseAPP, MkXR(<< XrB("rrt") >>), RawOf(199, 3, Ramp(4, 50)),
     [BaseAPP EXCEPT !.data = << 7 >>],                                                         \* a member that is padded (P bit set)
     \* two CNAMEs in two chunks; the second chunk's source is the SSRC of BaseSR and BaseRR
     [k |-> "SDES", chunks |-> << [src |-> D4(77), items |-> << Item(1, 3) >>], [src |-> D4(1), items |-> << Item(2, 1), Item(1, 5) >>] >>] >>
CpSeqs(maxlen) == UNION { [1..n -> 1..Len(CpKinds)] : n \in 0..maxlen }
\* one length more over a reduced set: SR, RR, SDES with CNAME, SDES without, BYE, feedback, padded APP
CpReduced == {1, 2, 4, 8, 10, 11, 15}
CpSeqsExtra(len) == [1..len -> CpReduced]
CpOf(s) == [i \in 1..Len(s) |-> CpKinds[s[i]]]


\* ---- pairwise domains: two fields (or two list lengths) varied together ------------
\* fs is a sequence of << field name, set of values >>
PairVary(base, fs) ==
  UNION { { [base EXCEPT ![fs[p[1]][1]] = x, ![fs[p[2]][1]] = y] : x \in fs[p[1]][2], y \in fs[p[2]][2] }
          : p \in { q \in (1..Len(fs)) \X (1..Len(fs)) : q[1] < q[2] } }
U32S == { << 0, 0, 0, 0 >>, << 255, 255, 255, 255 >>, << 128, 7, 0, 1 >> }
U64S == { Zeros(8), Fill(8, 255), << 128, 0, 0, 7, 0, 0, 0, 1 >> }
RBFields == << << "ssrc", U32S >>, << "fl", {0, 255, 129} >>, << "lost", { << 0, 0, 0, 0 >>, << 0, 255, 255, 255 >>, << 0, 128, 1, 0 >> } >>,
               << "seq", U32S >>, << "jit", U32S >>, << "lsr", U32S >>, << "dlsr", U32S >> >>
PairSR ==
  PairVary(BaseSR, << << "ssrc", U32S >>, << "ntp", U64S >>, << "rtp", U32S >>, << "pc", U32S >>, << "oc", U32S >>,
                      << "reports", { RBs(0), RBs(2), RBs(31) } >>, << "ext", { << >>, Ramp(4, 9), Ramp(12, 9) } >> >>)
  \cup { [BaseSR EXCEPT !.reports = << RBn(1), r, RBn(3) >>] : r \in PairVary(BaseRB, RBFields) }     \* the second of three blocks varies
PairRR ==
  PairVary(BaseRR, << << "ssrc", U32S >>, << "reports", { RBs(0), RBs(2), RBs(31) } >>, << "ext", { << >>, Ramp(1, 9), Ramp(5, 9), Ramp(8, 9) } >> >>)
  \cup { [BaseRR EXCEPT !.reports = << RBn(1), r >>, !.ext = Ramp(3, 1)] : r \in PairVary(BaseRB, RBFields) }
PairSDES ==
  { [k |-> "SDES", chunks |-> [i \in 1..nc |-> Chunk1(i, [j \in 1..((ni + i) % 4) |-> Item(1 + ((i + j) % 8), (tl + j) % 7)])]] :
      nc \in {1, 2, 3, 31}, ni \in 0..3, tl \in 0..6 }
  \cup { [k |-> "SDES", chunks |-> << Chunk1(1, << Item(2, a), Item(1, 255), Item(3, b) >>), Chunk1(2, << Item(1, b) >>) >>] : a \in 0..4, b \in 0..4 }
PairBYE == { [k |-> "BYE", srcs |-> [i \in 1..ns |-> << i, 9, 8, 255 - i >>], reason |-> Ramp(rl, 64)] : ns \in {0, 1, 2, 3, 31}, rl \in {0, 1, 2, 3, 4, 5, 6, 7, 255} }
PairAPP == { [BaseAPP EXCEPT !.st = s, !.name = nm, !.data = Ramp(dl, 32), !.ssrc = x] :
               s \in {0, 31}, nm \in { << 0, 0, 0, 0 >>, << 78, 65, 77, 69 >> }, dl \in {0, 1, 2, 3, 4, 5, 7, 8}, x \in {D4(1), << 255, 255, 255, 255 >>} }
PairNACK == { [BaseNACK EXCEPT !.nacks = [i \in 1..n |-> IF i = pos THEN Pair(p, b) ELSE Pair(256 * i + i, 257 * i)]] :
                n \in {2, 3, 253}, pos \in {1, 2}, p \in {0, 65535, 32769}, b \in {0, 65535, 32769} }
PairSLI == { [BaseSLI EXCEPT !.sli = [i \in 1..n |-> IF i = pos THEN Sli(f, m, p) ELSE Sli(i, i + 1, i + 2)]] :
               n \in {1, 3}, pos \in {1, 3}, f \in {0, 8191, 4097}, m \in {0, 8191, 1025}, p \in {0, 63, 33} } \ { x \in {BaseSLI} : FALSE }
PairFIR == { [BaseFIR EXCEPT !.fir = [i \in 1..n |-> IF i = pos THEN Fir(s, q) ELSE Fir(D4(9 * i), i)], !.media = md] :
               n \in {1, 2, 3}, pos \in {1, 2}, s \in U32S, q \in {0, 255, 129}, md \in {D4(5), Zeros(4)} }
PairREMB == { [BaseREMB EXCEPT !.br = x, !.ssrcs = [i \in 1..n |-> << i, 5, 6, 255 - i >>], !.sender = sd] :
                x \in { [s |-> 0, e |-> e, f |-> f] : e \in {0, 127, 144, 145, 190, 207, 208}, f \in {0, 8388607, 4194305} }, n \in {0, 1, 2, 255}, sd \in {D4(1), Fill(4, 255)} }
PairCCFB == { [BaseCCFB EXCEPT !.blocks = [i \in 1..Len(ls) |-> CcBlock(<< i, 7, 7, i >>, bg + i, [j \in 1..ls[i] |-> Mb(j % 3 # 0, ((i + j) % 4) * BoolBit(j % 3 # 0), ((97 * j + i) % 8192) * BoolBit(j % 3 # 0))])]] :
                ls \in { << 0 >>, << 1 >>, << 2 >>, << 3 >>, << 2, 0 >>, << 0, 2 >>, << 4, 0, 2 >>, << 1, 1, 1 >>, << 3, 2, 1 >>, << 2, 3, 4 >>, << 5, 0, 0, 1 >> }, bg \in {0, 65530} }


\* ---- lists with repeated equal elements (a decoder or encoder that merges or skips duplicates) ------------
DupDom ==
  { [BaseSR EXCEPT !.reports = << RBn(1), RBn(1) >>], [BaseRR EXCEPT !.reports = << RBn(2), RBn(2), RBn(2) >>],
    [k |-> "SDES", chunks |-> << Chunk1(1, << Item(1, 3), Item(1, 3) >>), Chunk1(1, << Item(1, 3), Item(1, 3) >>) >>],
    [k |-> "BYE", srcs |-> << D4(1), D4(1), D4(1) >>, reason |-> << >>],
    [BaseNACK EXCEPT !.nacks = << Pair(7, 9), Pair(7, 9) >>], [BaseNACK EXCEPT !.nacks = << Pair(0, 0), Pair(0, 0), Pair(1, 1), Pair(1, 1) >>],
    [BaseSLI EXCEPT !.sli = << Sli(1, 2, 3), Sli(1, 2, 3) >>], [BaseFIR EXCEPT !.fir = << Fir(D4(9), 7), Fir(D4(9), 7) >>],
    [BaseREMB EXCEPT !.ssrcs = << D4(9), D4(9), D4(9) >>],
    [BaseCCFB EXCEPT !.blocks = << CcBlock(D4(5), 1, << Mb(TRUE, 1, 2), Mb(TRUE, 1, 2) >>), CcBlock(D4(5), 1, << Mb(TRUE, 1, 2), Mb(TRUE, 1, 2) >>) >>],
    MkTWCC(4, << Rl(1, 2), Rl(1, 2) >>, << Dl(1, 5), Dl(1, 5), Dl(1, 5), Dl(1, 5) >>, FALSE),
    MkXR(<< XrB("rrt"), XrB("rrt") >>), MkXR(<< XrB("lrle"), XrB("lrle"), XrB("unk"), XrB("unk") >>),
    MkXR(<< [XrB("dlrr") EXCEPT !.reports = << [ssrc |-> D4(1), lrr |-> D4(5), dlrr |-> D4(9)], [ssrc |-> D4(1), lrr |-> D4(5), dlrr |-> D4(9)] >>] >>),
    MkXR(<< [XrB("lrle") EXCEPT !.chunks = << 5, 5, 5, 5 >>], [XrB("prt") EXCEPT !.times = << D4(1), D4(1) >>] >>),
    MkXR(<< [XrB("ss") EXCEPT !.ssrc = D4(1)] >>), MkXR(<< [XrB("dlrr") EXCEPT !.reports = << [ssrc |-> D4(1), lrr |-> D4(5), dlrr |-> D4(9)] >>] >>) }
\* ---- texts made of one octet class (UTF-8 continuation octets, 0xFF, NUL) at the lengths where formatters switch behaviour
OctetTexts == { Fill(n, x) : n \in {1, 63, 64, 65, 66, 255}, x \in {128, 191, 255, 0, 194} }
TextDom ==
  { [k |-> "SDES", chunks |-> << Chunk1(1, << Item(1, 2), [t |-> 2, text |-> tx] >>) >>] : tx \in OctetTexts }
  \cup { [BaseBYE EXCEPT !.reason = tx] : tx \in OctetTexts }
  \cup { [BaseAPP EXCEPT !.data = tx, !.name = Fill(4, 128)] : tx \in { Fill(n, x) : n \in {1, 64, 65}, x \in {128, 255} } }

\* ---- texts that code may treat specially: white space only, a byte order mark, a leading or trailing NUL,
\* "self-describing" texts whose first octet is the length of the text or of the rest ---------------------
SpecialTexts == { << 32 >>, << 9 >>, << 13, 10 >>, << 32, 9, 13, 10 >>, << 239, 187, 191 >>, << 239, 187, 191 >> \o Ramp(3, 97),
                  << 1 >>, << 2, 97, 98, 99 >>, << 3, 97, 98, 99 >>, << 4, 97, 98, 99 >>, << 0 >> \o Ramp(2, 97), Ramp(3, 97) \o << 0 >>,
                  << 32 >> \o Ramp(3, 97) \o << 32 >> }
SpecialDom ==
  { [k |-> "SDES", chunks |-> << Chunk1(1, << [t |-> t, text |-> tx], Item(6, 2) >>) >>] : tx \in SpecialTexts, t \in {1, 2, 8} }
  \cup { [BaseBYE EXCEPT !.reason = tx] : tx \in SpecialTexts }
  \cup { [BaseAPP EXCEPT !.data = tx] : tx \in SpecialTexts }
  \cup { [BaseAPP EXCEPT !.name = nm] : nm \in { << 82, 69, 77, 66 >>, << 32, 32, 32, 32 >>, << 0, 0, 0, 0 >> } }
\* ---- lists whose neighbours are related (consecutive, contiguous, same key, descending): an encoder or decoder
\* that merges, sorts or de-duplicates shows here, not on independent elements ------------------------------
RelDom ==
  { [BaseSLI EXCEPT !.sli = << Sli(700, 37, 21), Sli(737, 12, 21), Sli(2000, 3, 22) >>],
    [BaseSLI EXCEPT !.sli = << Sli(10, 1, 5), Sli(11, 1, 5), Sli(12, 1, 5) >>],
    [BaseSLI EXCEPT !.sli = << Sli(30, 2, 5), Sli(20, 2, 5), Sli(10, 2, 5) >>],
    [BaseNACK EXCEPT !.nacks = << Pair(100, 65535), Pair(117, 65535) >>], [BaseNACK EXCEPT !.nacks = << Pair(100, 1), Pair(101, 1) >>],
    [BaseNACK EXCEPT !.nacks = << Pair(100, 0), Pair(101, 0), Pair(102, 0) >>], [BaseNACK EXCEPT !.nacks = << Pair(300, 0), Pair(200, 0), Pair(100, 0) >>],
    [BaseNACK EXCEPT !.nacks = << Pair(65535, 3), Pair(16, 0) >>],
    \* a pair whose packet ID the bitmap of its predecessor already names (bit d-1 set), with an empty and a non-empty bitmap
    [BaseNACK EXCEPT !.nacks = << Pair(4000, 580), Pair(4007, 0), Pair(5000, 32769) >>],
    [BaseNACK EXCEPT !.nacks = << Pair(4000, 64), Pair(4007, 5) >>], [BaseNACK EXCEPT !.nacks = << Pair(4000, 1), Pair(4001, 0) >>],
    [BaseNACK EXCEPT !.nacks = << Pair(4000, 32768), Pair(4016, 0) >>], [BaseNACK EXCEPT !.nacks = << Pair(65530, 65535), Pair(2, 0) >>],
    [BaseNACK EXCEPT !.nacks = << Pair(4000, 0), Pair(4007, 0) >>],
    [BaseFIR EXCEPT !.fir = << Fir(D4(9), 7), Fir(D4(9), 8) >>], [BaseFIR EXCEPT !.fir = << Fir(D4(9), 255), Fir(D4(9), 0) >>],
    [BaseFIR EXCEPT !.fir = << Fir(D4(5), 7), Fir(D4(1), 7) >>],
    [BaseREMB EXCEPT !.ssrcs = << D4(9), << 9, 10, 11, 13 >>, << 9, 10, 11, 14 >> >>], [BaseREMB EXCEPT !.ssrcs = << D4(9), D4(5), D4(1) >>],
    [k |-> "BYE", srcs |-> << D4(1), << 1, 2, 3, 5 >>, << 1, 2, 3, 6 >> >>, reason |-> << >>],
    [BaseSR EXCEPT !.reports = << RBn(1), [RBn(2) EXCEPT !.ssrc = RBn(1).ssrc] >>], [BaseRR EXCEPT !.reports = << RBn(2), RBn(1) >>],
    [BaseSR EXCEPT !.reports = << [RBn(1) EXCEPT !.ssrc = D4(1)] >>],
    [k |-> "SDES", chunks |-> << Chunk1(1, << Item(1, 3), Item(2, 3) >>), Chunk1(1, << Item(1, 4) >>) >>],
    [k |-> "SDES", chunks |-> << Chunk1(2, << Item(1, 3) >>), Chunk1(1, << Item(1, 3) >>) >>],
    [BaseCCFB EXCEPT !.blocks = << CcBlock(D4(5), 10, << Mb(TRUE, 1, 2), Mb(TRUE, 1, 3) >>), CcBlock(D4(5), 12, << Mb(TRUE, 1, 4) >>) >>],
    [BaseCCFB EXCEPT !.blocks = << CcBlock(D4(1), 10, << Mb(TRUE, 1, 2) >>) >>],
    \* one stream continued in the next block (same source, the sequence ranges meet), also over the 16-bit wrap and in a chain of three
    [BaseCCFB EXCEPT !.blocks = << CcBlock(D4(5), 10, << Mb(TRUE, 1, 2), Mb(TRUE, 1, 3) >>), CcBlock(D4(5), 12, << Mb(TRUE, 1, 4), Mb(FALSE, 0, 0), Mb(TRUE, 2, 6) >>) >>],
    [BaseCCFB EXCEPT !.blocks = << CcBlock(D4(5), 65533, << Mb(TRUE, 1, 2), Mb(TRUE, 1, 3), Mb(TRUE, 0, 3) >>), CcBlock(D4(5), 0, << Mb(TRUE, 1, 4), Mb(TRUE, 2, 6) >>) >>],
    [BaseCCFB EXCEPT !.blocks = << CcBlock(D4(5), 10, << Mb(TRUE, 1, 2), Mb(TRUE, 1, 3) >>), CcBlock(D4(5), 12, << Mb(TRUE, 1, 4), Mb(TRUE, 2, 6) >>), CcBlock(D4(5), 14, << Mb(TRUE, 3, 4), Mb(TRUE, 2, 7) >>) >>],
    [BaseCCFB EXCEPT !.blocks = << CcBlock(D4(5), 10, << Mb(TRUE, 1, 2), Mb(TRUE, 1, 3) >>), CcBlock(D4(9), 12, << Mb(TRUE, 1, 4), Mb(TRUE, 2, 6) >>) >>],
    [BaseCCFB EXCEPT !.blocks = << CcBlock(D4(5), 12, << Mb(TRUE, 1, 2), Mb(TRUE, 1, 3) >>), CcBlock(D4(5), 10, << Mb(TRUE, 1, 4), Mb(TRUE, 2, 6) >>) >>],
    MkTWCC(5, << Rl(1, 2), Rl(1, 3) >>, [i \in 1..5 |-> Dl(1, 4)], FALSE),
    MkTWCC(4, << Rl(1, 2), Rl(2, 2) >>, << Dl(1, 1), Dl(1, 2), Dl(2, 3), Dl(2, 4) >>, FALSE),
    [MkTWCC(1, << Rl(1, 1) >>, << Dl(1, 7) >>, FALSE) EXCEPT !.media = D4(1)],
    [Fb("PLI") EXCEPT !.media = D4(1)], [Fb("RRR") EXCEPT !.media = D4(1)], [BaseNACK EXCEPT !.media = D4(1)],
    [BaseFIR EXCEPT !.fir = << Fir(D4(5), 7) >>], [BaseFIR EXCEPT !.fir = << Fir(D4(1), 7) >>],
    [BaseREMB EXCEPT !.ssrcs = << D4(1) >>],
    MkXR(<< [XrB("lrle") EXCEPT !.bs = 258, !.es = 772], [XrB("lrle") EXCEPT !.bs = 772, !.es = 900] >>),
    MkXR(<< [XrB("lrle") EXCEPT !.ssrc = D4(1)] >>), MkXR(<< [XrB("voip") EXCEPT !.ssrc = D4(1)], [XrB("ss") EXCEPT !.ssrc = D4(1)] >>),
    MkXR(<< [XrB("dlrr") EXCEPT !.reports = << [ssrc |-> D4(1), lrr |-> D4(5), dlrr |-> D4(9)], [ssrc |-> D4(1), lrr |-> D4(6), dlrr |-> D4(9)] >>] >>),
    MkXR(<< [XrB("prt") EXCEPT !.times = << D4(33), << 33, 34, 35, 37 >>, << 33, 34, 35, 38 >> >>] >>),
    MkXR(<< [XrB("lrle") EXCEPT !.chunks = << 16385, 16386, 16387, 16388 >>] >>),
    \* run-length blocks whose chunks describe exactly the interval [begin_seq, end_seq): bit vectors of 15, runs, a terminating null
    MkXR(<< [XrB("lrle") EXCEPT !.bs = 1000, !.es = 1045, !.chunks = << 54613, 43690, 65535, 0 >>], XrB("unk") >>),
    MkXR(<< [XrB("drle") EXCEPT !.bs = 1000, !.es = 1045, !.chunks = << 54613, 43690, 65535, 0 >>] >>),
    MkXR(<< [XrB("lrle") EXCEPT !.bs = 65530, !.es = 14, !.chunks = << 16389, 54613 >>] >>),
    MkXR(<< [XrB("lrle") EXCEPT !.bs = 10, !.es = 30, !.chunks = << 16389, 54613 >>] >>),
    MkXR(<< [XrB("lrle") EXCEPT !.bs = 10, !.es = 25, !.chunks = << 54613, 0 >>] >>),
    MkXR(<< [XrB("prt") EXCEPT !.bs = 10, !.es = 12, !.times = << D4(33), D4(37) >>] >>),
    \* one receipt time more and one fewer than the interval has sequence numbers (an inclusive end_seq; a lost last packet)
    MkXR(<< [XrB("prt") EXCEPT !.t = 0, !.bs = 4711, !.es = 4714, !.times = << D4(33), D4(37), D4(41), D4(45) >>], XrB("rrt") >>),
    MkXR(<< [XrB("prt") EXCEPT !.t = 0, !.bs = 4711, !.es = 4714, !.times = << D4(33), D4(37) >>], XrB("rrt") >>),
    MkXR(<< [XrB("prt") EXCEPT !.t = 0, !.bs = 65535, !.es = 1, !.times = << D4(33), D4(37), D4(41) >>] >>),
    MkXR(<< [XrB("lrle") EXCEPT !.t = 0, !.bs = 10, !.es = 25, !.chunks = << 54613, 54613 >>] >>),
    \* statistics a receiver would report: lost and duplicate counts related to the interval (received = span - lost + dup)
    MkXR(<< [XrB("ss") EXCEPT !.l = TRUE, !.d = TRUE, !.bs = 21000, !.es = 21100, !.lost = << 0, 0, 0, 107 >>, !.dup = << 0, 0, 0, 7 >>] >>),
    MkXR(<< [XrB("ss") EXCEPT !.l = TRUE, !.d = TRUE, !.bs = 21000, !.es = 21100, !.lost = << 0, 0, 0, 100 >>, !.dup = << 0, 0, 0, 0 >>] >>),
    MkXR(<< [XrB("ss") EXCEPT !.l = TRUE, !.d = FALSE, !.bs = 65500, !.es = 64, !.lost = << 0, 0, 0, 100 >>, !.dup = << 0, 0, 0, 1 >>] >>) }

\* ---- RFC 3611 gives some mid-range values a meaning (127 = unavailable); two such fields at once, on a block
\* whose other fields hold ordinary values ---------------------------------------------------------------
TypicalVoip == [XrB("voip") EXCEPT !.lr = 3, !.dr = 2, !.bd = 20, !.gd = 90, !.rf = 80, !.erf = 78, !.moslq = 42, !.moscq = 38,
                                    !.sl = 200, !.nl = 180, !.rerl = 30, !.gmin = 16, !.rxc = 1]
PairXR == { MkXR(<< b >>) : b \in PairVary(TypicalVoip, << << "lr", {0, 127, 255} >>, << "dr", {0, 127, 255} >>, << "rf", {0, 127, 255} >>,
                                                            << "erf", {0, 127, 255} >>, << "moslq", {0, 127, 255} >>, << "moscq", {0, 127, 255} >>,
                                                            << "sl", {0, 127, 255} >>, << "nl", {0, 127, 255} >>, << "rerl", {0, 127, 255} >>,
                                                            << "gmin", {0, 127, 255} >>, << "rxc", {0, 127, 255} >> >>) }
\* ---- opaque XR blocks of the block types other documents have registered, at every small length, with low-entropy
\* content (alternating null and non-null 16-bit words): a decoder or accessor that starts to interpret one shows here
SparseBytes(n, ph) == [i \in 1..n |-> IF (((i - 1) \div 2) + ph) % 2 = 0 THEN 0 ELSE 1]
UnkDom == { MkXR(<< XrB("dlrr"), [bt |-> "unk", type |-> t, ts |-> 0, bytes |-> SparseBytes(4 * w, ph)] >>) : t \in 8..40, w \in 1..12, ph \in {0, 1} }


\* ---- values with unaligned variable-length parts (C05: if Marshal succeeds the output is framed and its size is MarshalSize) ----
OddRle(n) == [XrB("lrle") EXCEPT !.chunks = [i \in 1..n |-> (300 + i) % 65536]]
UnalignedDom ==
  { MkXR(<< OddRle(1) >>), MkXR(<< OddRle(3) >>), MkXR(<< OddRle(1), OddRle(1) >>), MkXR(<< OddRle(3), XrB("rrt"), OddRle(5) >>),
    MkXR(<< OddRle(1), [XrB("drle") EXCEPT !.chunks = << 9 >>] >>), MkXR(<< OddRle(2), OddRle(1) >>) }
  \cup { MkXR(<< [XrB("unk") EXCEPT !.bytes = Ramp(n, 7)] >>) : n \in {1, 2, 3, 5} }
  \cup { MkXR(<< [XrB("unk") EXCEPT !.bytes = Ramp(2, 7)], [XrB("unk") EXCEPT !.bytes = Ramp(2, 9)] >>) }
  \cup { [BaseSR EXCEPT !.ext = Ramp(n, 3)] : n \in {1, 2, 3, 5, 7} }
\* ---- values with a field wider than its wire field (the library masks such fields silently; whatever it does,
\* the neighbouring fields must not be corrupted: Judge.tla Masked) --------------------------------------------
OversizeDom ==
  { [BaseSLI EXCEPT !.sli = << Sli(f, n, p), Sli(1, 2, 3) >>] : f \in {5, 8192, 8197, 65535}, n \in {6, 8192, 9000, 65535}, p \in {7, 64, 255} }
  \cup { [BaseCCFB EXCEPT !.blocks = << CcBlock(D4(5), 1, << Mb(TRUE, e, a), Mb(TRUE, 1, 2) >>) >>] : e \in {1, 4, 255}, a \in {3, 8192, 65535} }
  \cup { MkTWCC(1, << [Rl(1, 1) EXCEPT !.sym = s, !.run = r] >>, << Dl(1, 7) >>, FALSE) : s \in {1, 5}, r \in {1, 8192, 8193, 40000, 65535} }
  \cup { [MkTWCC(1, << Rl(1, 1) >>, << Dl(1, 7) >>, FALSE) EXCEPT !.ref = << x, 1, 2, 3 >>] : x \in {1, 255} }
  \cup { MkXR(<< [XrB(b) EXCEPT !.t = t] >>) : b \in {"lrle", "prt"}, t \in {16, 37, 255} }
  \cup { MkXR(<< [XrB("ss") EXCEPT !.toh = t] >>) : t \in {4, 7, 255} }
\* a metric block marked "not received" that nevertheless carries an ECN mark and an arrival offset in the caller's value
StrayDom == { [BaseCCFB EXCEPT !.blocks = << CcBlock(D4(5), 1, << Mb(TRUE, 1, 2), Mb(FALSE, e, a), Mb(TRUE, 3, 4) >>) >>] : e \in {0, 2}, a \in {0, 77} }
LooseDom == UnalignedDom \cup OversizeDom \cup StrayDom

PairAll == DupDom \cup TextDom \cup SpecialDom \cup RelDom \cup PairXR \cup PairSR \cup PairRR \cup PairSDES \cup PairBYE \cup PairAPP \cup PairNACK \cup PairSLI \cup PairFIR \cup PairREMB \cup PairCCFB
=============================================================================
