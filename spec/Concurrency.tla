----------------------------- MODULE Concurrency -----------------------------
(* Goroutines calling the codec concurrently (C18).  Each public call is    *)
(* two steps, Begin and End, so that TLC explores every interleaving of     *)
(* calls in flight.  Shared packets are only read (Marshal, MarshalSize,    *)
(* DestinationSSRC, String); private packets and buffers may also be        *)
(* decoded into.  The package keeps no mutable state: `pkg` is never        *)
(* written.  The invariant is that every completed call returned what the   *)
(* same call returns when run alone (Alone), and that no object a call only   *)
(* reads has changed.                                                         *)
(* SharedScratch = TRUE is the design the property forbids: Marshal stages  *)
(* its output in a package-level buffer between Begin and End.  TLC must    *)
(* find the interleaving that corrupts a result; the orchestrator runs this *)
(* variant to show the invariant is not vacuous.                              *)
EXTENDS Judge

CONSTANTS G,              \* goroutines
          SharedVals,     \* values of the shared packets (one object per value)
          PrivVals,       \* value each goroutine's private packet starts with
          MaxCalls,       \* calls per goroutine
          SharedScratch   \* FALSE: the library as designed; TRUE: with a package-level scratch buffer

Ops == {"marshal", "size", "dest"}
\* what a call returns when run alone on value v
Alone(op, v) == CASE op = "marshal" -> EncPacket({}, v) [] op = "size" -> Size(v) [] op = "dest" -> Dest(v)

VARIABLES shared,     \* shared object -> value
          priv,       \* goroutine -> value of its private packet
          inflight,   \* goroutine -> [op, obj, val] or "idle"
          done,       \* goroutine -> number of completed calls
          wrong,      \* some completed call returned something else than the same call run alone
          pkg,        \* package-level state
          scratch     \* the forbidden package-level buffer
cvars == << shared, priv, inflight, done, wrong, pkg, scratch >>

Idle == [op |-> "idle"]
CInit == /\ shared = [i \in 1..Len(SharedVals) |-> SharedVals[i]]
         /\ priv = [g \in G |-> PrivVals[1]]
         /\ inflight = [g \in G |-> Idle] /\ done = [g \in G |-> 0] /\ wrong = FALSE
         /\ pkg = "sentinels" /\ scratch = << >>

Begin(g) ==
  /\ inflight[g] = Idle /\ done[g] < MaxCalls
  /\ \E op \in Ops :
       \/ \E i \in 1..Len(shared) :
            /\ inflight' = [inflight EXCEPT ![g] = [op |-> op, obj |-> i, val |-> shared[i]]]
            /\ scratch' = IF SharedScratch /\ op = "marshal" THEN EncPacket({}, shared[i]) ELSE scratch
       \/ /\ inflight' = [inflight EXCEPT ![g] = [op |-> op, obj |-> 0, val |-> priv[g]]]
          /\ scratch' = IF SharedScratch /\ op = "marshal" THEN EncPacket({}, priv[g]) ELSE scratch
  /\ UNCHANGED << shared, priv, done, wrong, pkg >>
\* a goroutine may replace its private packet (decode into it) between calls
Replace(g) ==
  /\ inflight[g] = Idle /\ \E i \in 1..Len(PrivVals) : priv' = [priv EXCEPT ![g] = PrivVals[i]]
  /\ UNCHANGED << shared, inflight, done, wrong, pkg, scratch >>
End(g) ==
  /\ inflight[g] # Idle
  /\ LET c == inflight[g]
         res == IF SharedScratch /\ c.op = "marshal" THEN scratch ELSE Alone(c.op, c.val)
     IN  /\ done' = [done EXCEPT ![g] = @ + 1]
         /\ wrong' = (wrong \/ res # Alone(c.op, c.val))
  /\ inflight' = [inflight EXCEPT ![g] = Idle]
  /\ UNCHANGED << shared, priv, pkg, scratch >>
CNext == \E g \in G : Begin(g) \/ End(g) \/ Replace(g)
CSpec == CInit /\ [][CNext]_cvars

\* every completed call returned the sequential result for the value it was called on
SequentialResults == ~wrong
\* shared packets and the package state never change
SharedUnchanged == shared = [i \in 1..Len(SharedVals) |-> SharedVals[i]] /\ pkg = "sentinels"
NoSharedWrites == [][shared' = shared /\ pkg' = pkg]_cvars
=============================================================================
