--------------------------------- MODULE Mc ---------------------------------
(* Bounded exploration of the session machine (Codec.tla) with the          *)
(* reference results, used both to check the design-level theorems          *)
(* exhaustively over Domain.tla and to emit the explored behaviours for     *)
(* replay against the real code (one JSON line per behaviour).              *)
(*   Mode "wire":   value -> Marshal -> own decoder -> re-Marshal           *)
(*                        -> datagram decoder -> Marshal of the list        *)
(*   Mode "faults": value -> Marshal -> fault(s) -> every decoder           *)
(*                        -> (if accepted) Marshal -> datagram decoder      *)
EXTENDS Codec, Domain, Faults, Variants, Json

CONSTANTS Mode, KindsUnderTest, FaultDepth, MaxFrames, AllPTs, MaxCompound, MaxHist
VARIABLES pc, hist     \* hist: the calls made so far (hist mode)
mvars == << vars, pc, hist >>

Vals == CASE Mode \in {"wire", "foreign"} -> (IF KindsUnderTest = {"PAIRS"} THEN PairAll ELSE IF KindsUnderTest = {"UNK"} THEN UnkDom
                                               ELSE UNION { StarDom(k) : k \in KindsUnderTest })
          [] Mode = "limits" -> LimitDom
          [] Mode = "loose" -> LooseDom
          [] Mode = "variants" -> VarDom \cup InflateDom
          [] Mode = "reuse" -> UNION { ReuseDom(k) : k \in KindsUnderTest }
          [] OTHER -> UNION { Tiny(k) : k \in KindsUnderTest }

McInit == Init /\ pc = "build" /\ hist = << >>

Emit(rec) == PrintT(<< "VERIF_BEH", ToJson(rec) >>)

WireNext ==
  \/ /\ pc = "build" /\ \E v \in Vals : Build(1, v)
     /\ pc' = "marshal"
  \/ /\ pc = "marshal" /\ Marshal(1, RefMarshal(pk[1])) /\ pc' = "own"
  \/ /\ pc = "own" /\ Unmarshal(pk[1].k, 1, 2, RefDecode(pk[1].k, buf[1])) /\ pc' = "remarshal"
  \/ /\ pc = "remarshal" /\ Marshal(2, RefMarshal(pk[2])) /\ pc' = "dgram"
  \/ /\ pc = "dgram" /\ Datagram(1, 3, RefDatagram(buf[1])) /\ pc' = "listmarshal"
  \/ /\ pc = "listmarshal" /\ Marshal(3, RefMarshal(pk[3])) /\ pc' = "done"
     /\ Emit([script |-> "rt", v |-> pk[1]])

FaultNext ==
  \/ /\ pc = "build" /\ \E v \in Vals : Build(1, v)
     /\ pc' = "marshal"
  \/ /\ pc = "marshal" /\ Marshal(1, RefMarshal(pk[1])) /\ pc' = "fault1"
  \/ /\ pc = "fault1" /\ \E f \in FirstOrder(buf[1]) : SetBuf(1, f)
     /\ pc' = IF FaultDepth >= 2 THEN "fault2" ELSE "decode"
  \/ /\ pc = "fault2" /\ \/ \E f \in Light(buf[1]) : SetBuf(1, f)
                         \/ UNCHANGED vars
     /\ pc' = "decode"
  \/ /\ pc = "decode" /\ Datagram(1, 2, RefDatagram(buf[1])) /\ pc' = "reencode"
     /\ Emit([script |-> "dec", bytes |-> buf[1]])
  \/ /\ pc = "reencode" /\ pk[2].k # "NONE" /\ Marshal(2, RefMarshal(pk[2])) /\ pc' = "redecode"
  \/ /\ pc = "redecode" /\ Datagram(2, 3, RefDatagram(buf[2])) /\ pc' = "done"

\* limits: every boundary value through Marshal (C08)
LimitsNext ==
  \/ /\ pc = "build" /\ \E v \in Vals : Build(1, v)
     /\ pc' = "marshal"
  \/ /\ pc = "marshal" /\ Marshal(1, RefMarshal(pk[1])) /\ pc' = "done"
     /\ Emit([script |-> "rt", v |-> pk[1]])

\* variants: every alternative and every count-inflated encoding through the decoders (C04)
VariantsNext ==
  \/ /\ pc = "build" /\ \E v \in Vals : Build(1, v)
     /\ pc' = "choose"
  \/ /\ pc = "choose"
     /\ \/ /\ \E b \in Variants(D0, pk[1]) : SetBuf(1, b)
           /\ pc' = "variant"
        \/ /\ pk[1] \in InflateDom /\ \E b \in Inflated(pk[1]) : SetBuf(1, b)
           /\ pc' = "inflated"
  \/ /\ pc \in {"variant", "inflated"} /\ Unmarshal(pk[1].k, 1, 2, RefDecode(pk[1].k, buf[1]))
     /\ pc' = IF pc = "variant" THEN "vdone" ELSE "idone"
     /\ Emit([script |-> "dec", bytes |-> buf[1]])

\* foreign: every star-domain encoding to every decoder (C07)
ForeignNext ==
  \/ /\ pc = "build" /\ \E v \in Vals : Build(1, v)
     /\ pc' = "marshal"
  \/ /\ pc = "marshal" /\ Marshal(1, RefMarshal(pk[1])) /\ pc' = "done"
     /\ Emit([script |-> "dec", bytes |-> buf'[1]])

\* dispatch: every (PT, FMT) with several bodies through the datagram decoder (C07)
DispatchNext ==
  \/ /\ pc = "build"
     /\ \E pt \in DispatchPTs(AllPTs), c \in 0..31 : \E body \in DispatchBodies(pt, c) : SetBuf(1, DispatchFrame(pt, c, body))
     /\ pc' = "decode"
  \/ /\ pc = "decode" /\ Datagram(1, 2, RefDatagram(buf[1])) /\ pc' = "done"
     /\ Emit([script |-> "dgram", bytes |-> buf[1]])

\* datagram: sequences of frames (C06); the frames are kept in pk[3] as a RAW list
FrameSet == ValidFrames \cup MalformedFrames \cup TailJunk \cup SwallowFrames
\* complete (framed) pieces anywhere, incomplete tails only at the end
FramedSet == { f \in FrameSet : Len(f) >= 4 /\ Len(f) = 4 * (HLen(f) + 1) }
FrameSeqs == UNION { { s \in [1..n -> FrameSet] : \A i \in 1..(n - 1) : s[i] \in FramedSet } : n \in 1..MaxFrames }
DgramNext ==
  \/ /\ pc = "build"
     /\ \E s \in FrameSeqs :
          /\ buf' = [buf EXCEPT ![1] = FlatSeq(s)]
          /\ pk' = [pk EXCEPT ![3] = [k |-> "FRAMES", frames |-> s]]
          /\ UNCHANGED << prov, memo, fromdec, provdec >>
     /\ pc' = "decode"
  \/ /\ pc = "decode" /\ Datagram(1, 2, RefDatagram(buf[1])) /\ pc' = "done"
     /\ Emit([script |-> "frames", frames |-> pk[3].frames])

\* compound: every member sequence through Validate (as automaton), Marshal and Unmarshal (C11)
CompoundNext ==
  \/ /\ pc = "build" /\ \E s \in CpSeqs(MaxCompound) \cup CpSeqsExtra(MaxCompound + 1) : Build(1, [k |-> "CP", pkts |-> CpOf(s)])
     /\ pc' = "marshal"
  \/ /\ pc = "marshal" /\ Marshal(1, RefMarshal(pk[1])) /\ pc' = "unmarshal"
     /\ Emit([script |-> "cp", pkts |-> pk[1].pkts])
  \/ /\ pc = "unmarshal" /\ prov[1].k # "NONE" /\ Unmarshal("CP", 1, 2, RefDecode("CP", buf[1])) /\ pc' = "done"

\* hist: every call history up to MaxHist calls on one packet and what is decoded from it (C18)
HistOps == {"marshal1", "size1", "dest1", "string1", "unmarshal12", "datagram13", "marshal2", "dest2", "marshal3", "rebuild1", "unmarshal22"}
\* the caller overwrites the packet in place (same object, new field values) between calls:
\* whatever the library returned before must not influence what it returns now
Rebuilds(v) == { w \in Vals : w.k = v.k /\ w # v }
HistCall(op) ==
  CASE op = "marshal1" -> Marshal(1, RefMarshal(pk[1]))
    [] op = "size1" -> SizeOf(1, SizeAny(pk[1]))
    [] op = "dest1" -> DestOf(1, DestAny(pk[1]))
    [] op = "string1" -> StringOf(1, [panic |-> FALSE, out |-> << 0 >>])
    [] op = "unmarshal12" -> Unmarshal(pk[1].k, 1, 2, RefDecode(pk[1].k, buf[1]))
    [] op = "datagram13" -> Datagram(1, 3, RefDatagram(buf[1]))
    [] op = "marshal2" -> pk[2].k # "NONE" /\ Marshal(2, RefMarshal(pk[2]))
    [] op = "dest2" -> pk[2].k # "NONE" /\ DestOf(2, DestAny(pk[2]))
    [] op = "marshal3" -> pk[3].k # "NONE" /\ Marshal(3, RefMarshal(pk[3]))
    [] op = "rebuild1" -> Rebuilds(pk[1]) # {} /\ Build(1, CHOOSE w \in Rebuilds(pk[1]) : TRUE)
    \* the receiver of an earlier decode is used again (its contents do not enter the result)
    [] op = "unmarshal22" -> pk[2].k # "NONE" /\ Unmarshal(pk[1].k, 1, 2, RefDecode(pk[1].k, buf[1]))
HistNext ==
  \/ /\ pc = "build" /\ \E v \in Vals : Build(1, v) /\ hist' = << [start |-> v] >>
     /\ pc' = "calls"
  \/ /\ pc = "calls" /\ Len(hist) - 1 < MaxHist
     /\ \E op \in HistOps : HistCall(op) /\ hist' = Append(hist, IF op = "rebuild1" THEN [op |-> op, v |-> pk'[1]] ELSE [op |-> op])
     /\ pc' = "calls"
     /\ Emit([script |-> "prog", v |-> hist[1].start, ops |-> SubSeq(hist', 2, Len(hist'))])

\* reuse: a receiver that already holds a packet decodes another one (C18: results do not depend on what
\* was called before; C02: what it then holds is the value that was encoded).  Two fixed programs per
\* ordered pair (v, w) of values of one kind:
\*   1: v is encoded and decoded into a fresh receiver 2; the caller rebuilds packet 1 as w, encodes it and
\*      decodes that into receiver 2 again, then uses receiver 2
\*   2: v is encoded; the caller rebuilds packet 1 as w and decodes the encoding of v into packet 1 itself
ReuseProg(shape) ==
  IF shape = 1 THEN << "marshal1", "unmarshal12", "dest2", "marshal2", "rebuild1", "marshal1", "unmarshal22", "size2", "dest2", "marshal2" >>
  ELSE << "marshal1", "rebuild1", "unmarshal11", "size1", "dest1", "marshal1" >>
ReuseCall(op, k, w) ==
  CASE op = "rebuild1" -> Build(1, w)
    [] op = "unmarshal22" -> pk[2].k # "NONE" /\ Unmarshal(k, 1, 2, RefDecode(k, buf[1]))
    [] op = "unmarshal11" -> Unmarshal(k, 1, 1, RefDecode(k, buf[1]))
    [] op = "size2" -> pk[2].k # "NONE" /\ SizeOf(2, SizeAny(pk[2]))
    [] op = "size1" -> pk[1].k # "NONE" /\ SizeOf(1, SizeAny(pk[1]))
    [] op = "dest1" -> pk[1].k # "NONE" /\ DestOf(1, DestAny(pk[1]))
    [] op = "marshal1" -> pk[1].k # "NONE" /\ Marshal(1, RefMarshal(pk[1]))
    [] OTHER -> HistCall(op)
ReuseNext ==
  \/ /\ pc = "build" /\ \E v \in Vals, shape \in {1, 2} : \E w \in { x \in Vals : x.k = v.k } :
          Build(1, v) /\ hist' = << [start |-> v, w |-> w, shape |-> shape] >>
     /\ pc' = "calls"
  \/ /\ pc = "calls"
     /\ LET prog == ReuseProg(hist[1].shape)
            i == Len(hist)
            op == prog[i] IN
        /\ ReuseCall(op, hist[1].start.k, hist[1].w)
        /\ hist' = Append(hist, IF op = "rebuild1" THEN [op |-> op, v |-> hist[1].w] ELSE [op |-> op])
        /\ pc' = IF i = Len(prog) THEN "done" ELSE "calls"
        /\ (i = Len(prog) => Emit([script |-> "prog", v |-> hist[1].start, ops |-> SubSeq(hist', 2, Len(hist'))]))

McNext == CASE Mode = "hist" -> HistNext [] Mode = "reuse" -> ReuseNext [] Mode = "loose" -> LimitsNext [] Mode = "compound" -> CompoundNext [] Mode = "wire" -> WireNext [] Mode = "faults" -> FaultNext [] Mode = "limits" -> LimitsNext
            [] Mode = "variants" -> VariantsNext [] Mode = "foreign" -> ForeignNext
            [] Mode = "dispatch" -> DispatchNext [] Mode = "dgram" -> DgramNext
McStep == McNext /\ (Mode \notin {"hist", "reuse"} => UNCHANGED hist)
McSpec == McInit /\ [][McStep]_mvars

\* ---- invariants beyond Codec's ------------------------------------------
\* re-marshalling what was decoded reproduces the bytes (C02)
Remarshal == (prov[1].k # "NONE" /\ prov[2].k # "NONE" /\ pc \in {"dgram", "listmarshal", "done"} /\ Mode = "wire") => buf[2] = buf[1]
ListRemarshal == (Mode = "wire" /\ pc = "done" /\ prov[3].k # "NONE") => buf[3] = buf[1]
\* in wire mode every domain value is well-formed and every step succeeds
AllAccepted == Mode = "wire" =>
  /\ (pc \notin {"build", "marshal"} => prov[1].k # "NONE")
  /\ (pc \in {"remarshal", "dgram", "listmarshal", "done"} => pk[2].k # "NONE")
  /\ (pc \in {"listmarshal", "done"} => pk[3].k = "LIST")
\* DestinationSSRC of the decoded packet equals that of the original (C10)
DestStable == (Mode = "wire" /\ pk[1].k # "NONE" /\ pk[2].k \notin {"NONE", "LIST"}) => Dest(pk[2]) = Dest(pk[1])
\* C09 on the faulted buffers: what was accepted re-encodes to something
\* that decodes to the same list
FaultStable == (Mode = "faults" /\ pc = "done" /\ pk[2].k = "LIST" /\ (\A i \in 1..Len(pk[2].pkts) : WF(D0, pk[2].pkts[i]))) =>
  /\ pk[3].k = "LIST"
  /\ pk[3].pkts = [i \in 1..Len(pk[2].pkts) |-> Norm(D0, pk[2].pkts[i])]
\* ---- compound (C11): the Validate automaton accepts exactly the grammar; Marshal succeeds exactly
\* on valid sequences; what it emits decodes back to the same sequence; CNAME is defined
AutomatonIsGrammar == (Mode = "compound" /\ pk[1].k = "CP") => (ValidateRun(pk[1].pkts) = Valid(pk[1].pkts))
CompoundMarshal == (Mode = "compound" /\ pc \in {"unmarshal", "done"}) => ((prov[1].k # "NONE") = Valid(pk[1].pkts))
CompoundBack == (Mode = "compound" /\ pc = "done") => pk[2] = pk[1]
CnameDefined == (Mode = "compound" /\ pk[1].k = "CP" /\ Valid(pk[1].pkts)) => Len(CNAMEOf(pk[1].pkts)) \in {1, 3, 4, 5}

\* ---- histories (C18): the packet under test is never modified by any call, a buffer is only
\* written by Marshal, and repeating a call gives the same result (the guards of Codec.tla
\* would disable a differing repeat; here the reference results are functions of the value)
PacketUntouched == [][Mode = "hist" /\ pc = "calls" /\ hist'[Len(hist')].op # "rebuild1" => pk'[1] = pk[1]]_mvars
BufferOnlyByMarshal == [][Mode = "hist" /\ pc = "calls" /\ buf'[1] # buf[1] => hist'[Len(hist')].op = "marshal1"]_mvars

\* ---- reuse: what a receiver holds after a decode is the encoded value, whatever it held before
ReceiverHistoryFree == (Mode = "reuse" /\ pc = "done") =>
  IF hist[1].shape = 1 THEN pk[2] = Norm(D0, hist[1].w) ELSE pk[1] = Norm(D0, hist[1].start)

\* ---- limits (C08): every boundary value is decided, and never both ways ----
LimitsDecided == (Mode = "limits" /\ pk[1].k # "NONE") => (WFAny(D0, pk[1]) # OverAny(pk[1]))
LimitsRef == (Mode = "limits" /\ pc = "done") => ((prov[1].k # "NONE") = WFAny(D0, pk[1]))
\* ---- variants (C04): every variant decodes to the value, every inflated encoding is refused
VariantsDecode == (Mode = "variants" /\ pc = "vdone") => pk[2] = Norm(D0, pk[1])
InflatedRefused == (Mode = "variants" /\ pc = "idone") => pk[2] = None
\* ---- dispatch (C07): one packet of the registered kind, RawPacket verbatim, or an error
DispatchTotal == (Mode = "dispatch" /\ pc = "done") =>
  LET k == Kind(D0, HPT(buf[1]), HC(buf[1])) IN
  /\ (pk[2].k = "LIST" => Len(pk[2].pkts) = 1 /\ pk[2].pkts[1].k = k)
  /\ (k = "RAW" => pk[2].k = "LIST" /\ pk[2].pkts[1].bytes = buf[1])
\* ---- datagram (C06): the result is the concatenation of the per-frame results, or an error
Compose == (Mode = "dgram" /\ pc = "done") =>
  LET fs == pk[3].frames
      rs == [i \in 1..Len(fs) |-> DecDatagram(D0, fs[i])]
  IN  IF \A i \in 1..Len(fs) : rs[i].st = "ok"
      THEN pk[2] = [k |-> "LIST", pkts |-> FlatSeq([i \in 1..Len(fs) |-> rs[i].v])]
      ELSE pk[2] = None
=============================================================================
