--------------------------------- MODULE Mc ---------------------------------
(* Bounded exploration of the session machine (Codec.tla) with the          *)
(* reference results, used both to check the design-level theorems          *)
(* exhaustively over Domain.tla and to emit the explored behaviours for     *)
(* replay against the real code (one JSON line per behaviour).              *)
(*   Mode "wire":   value -> Marshal -> own decoder -> re-Marshal           *)
(*                        -> datagram decoder -> Marshal of the list        *)
(*   Mode "faults": value -> Marshal -> fault(s) -> every decoder           *)
(*                        -> (if accepted) Marshal -> datagram decoder      *)
EXTENDS Codec, Domain, Faults, Json

CONSTANTS Mode, KindsUnderTest, FaultDepth
VARIABLES pc
mvars == << vars, pc >>

Vals == IF Mode = "wire" THEN UNION { StarDom(k) : k \in KindsUnderTest }
        ELSE UNION { Tiny(k) : k \in KindsUnderTest }

McInit == Init /\ pc = "build"

Emit(rec) == PrintT(<< "VERIF_BEH", ToJson(rec) >>)

WireNext ==
  \/ /\ pc = "build" /\ \E v \in Vals : Build(1, v)
     /\ pc' = "marshal"
  \/ /\ pc = "marshal" /\ Marshal(1, RefMarshal(pk[1])) /\ pc' = "own"
  \/ /\ pc = "own" /\ Unmarshal(pk[1].k, 1, 2, RefDecode(pk[1].k, buf[1])) /\ pc' = "remarshal"
  \/ /\ pc = "remarshal" /\ Marshal(2, RefMarshal(pk[2])) /\ pc' = "dgram"
  \/ /\ pc = "dgram" /\ Datagram(1, 3, RefDatagram(buf[1])) /\ pc' = "listmarshal"
  \/ /\ pc = "listmarshal" /\ Marshal(3, RefMarshal(pk[3])) /\ pc' = "done"
     /\ Emit([script |-> "rt", v |-> pk[1]])

FaultNext ==
  \/ /\ pc = "build" /\ \E v \in Vals : Build(1, v)
     /\ pc' = "marshal"
  \/ /\ pc = "marshal" /\ Marshal(1, RefMarshal(pk[1])) /\ pc' = "fault1"
  \/ /\ pc = "fault1" /\ \E f \in FirstOrder(buf[1]) : SetBuf(1, f)
     /\ pc' = IF FaultDepth >= 2 THEN "fault2" ELSE "decode"
  \/ /\ pc = "fault2" /\ \/ \E f \in Light(buf[1]) : SetBuf(1, f)
                         \/ UNCHANGED vars
     /\ pc' = "decode"
  \/ /\ pc = "decode" /\ Datagram(1, 2, RefDatagram(buf[1])) /\ pc' = "reencode"
     /\ Emit([script |-> "dec", bytes |-> buf[1]])
  \/ /\ pc = "reencode" /\ pk[2].k # "NONE" /\ Marshal(2, RefMarshal(pk[2])) /\ pc' = "redecode"
  \/ /\ pc = "redecode" /\ Datagram(2, 3, RefDatagram(buf[2])) /\ pc' = "done"

McNext == IF Mode = "wire" THEN WireNext ELSE FaultNext
McSpec == McInit /\ [][McNext]_mvars

\* ---- invariants beyond Codec's ------------------------------------------
\* re-marshalling what was decoded reproduces the bytes (C02)
Remarshal == (prov[1].k # "NONE" /\ prov[2].k # "NONE" /\ pc \in {"dgram", "listmarshal", "done"} /\ Mode = "wire") => buf[2] = buf[1]
ListRemarshal == (Mode = "wire" /\ pc = "done" /\ prov[3].k # "NONE") => buf[3] = buf[1]
\* in wire mode every domain value is well-formed and every step succeeds
AllAccepted == Mode = "wire" =>
  /\ (pc \notin {"build", "marshal"} => prov[1].k # "NONE")
  /\ (pc \in {"remarshal", "dgram", "listmarshal", "done"} => pk[2].k # "NONE")
  /\ (pc \in {"listmarshal", "done"} => pk[3].k = "LIST")
\* DestinationSSRC of the decoded packet equals that of the original (C10)
DestStable == (Mode = "wire" /\ pk[1].k # "NONE" /\ pk[2].k \notin {"NONE", "LIST"}) => Dest(pk[2]) = Dest(pk[1])
\* C09 on the faulted buffers: what was accepted re-encodes to something
\* that decodes to the same list
FaultStable == (Mode = "faults" /\ pc = "done" /\ pk[2].k = "LIST" /\ (\A i \in 1..Len(pk[2].pkts) : WF(D0, pk[2].pkts[i]))) =>
  /\ pk[3].k = "LIST"
  /\ pk[3].pkts = [i \in 1..Len(pk[2].pkts) |-> Norm(D0, pk[2].pkts[i])]
=============================================================================
