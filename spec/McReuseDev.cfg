SPECIFICATION McSpec
CONSTANTS
  H = {1, 2, 3}
  D0 = {"SLI_PT205", "CCFB_NUM", "CCFB_ANY_FMT", "REMB_MANTISSA0"}
  Mode = "reuse"
  KindsUnderTest = {"SLI", "CCFB", "REMB"}
  FaultDepth = 1
  MaxFrames = 2
  MaxCompound = 3
  MaxHist = 3
  AllPTs = FALSE
INVARIANTS TypeOK ReceiverHistoryFree
CHECK_DEADLOCK FALSE
