SPECIFICATION McSpec
CONSTANTS
  H = {1, 2, 3}
  D0 = {}
  Mode = "reuse"
  KindsUnderTest = {"SR", "RR", "SDES", "BYE", "APP", "NACK", "RRR", "PLI", "FIR", "REMB", "TWCC", "XR", "RAW"}
  FaultDepth = 1
  MaxFrames = 2
  MaxCompound = 3
  MaxHist = 3
  AllPTs = FALSE
INVARIANTS TypeOK ReceiverHistoryFree
CHECK_DEADLOCK FALSE
