SPECIFICATION TSpec
CONSTANTS
  MaxStatus = 4
  Symbols = {0, 1, 2, 3}
  LongRuns = {7, 14}
INVARIANTS CursorInside PendingMatches ProcessedBound NoError MachineRefines ChunkingInvariant SizeClass
PROPERTY Progress
CHECK_DEADLOCK FALSE
