SPECIFICATION XSpec
CONSTANTS
  MaxBlocks = 3
INVARIANTS CursorOK BlockHeaders FixedLengths TypeSpecificBits WalkComplete Independent WholeDecodes UnknownVerbatim
CHECK_DEADLOCK FALSE
