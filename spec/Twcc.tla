-------------------------------- MODULE Twcc --------------------------------
(* Transport-wide congestion control feedback, 205/15,                      *)
(* draft-holmer-rmcat-transport-wide-cc-extensions-01 section 3.1.          *)
(*   4 sender, 8 media, 12 base seq(16), 14 status count(16),               *)
(*   16 reference time(24), 19 fb pkt count(8), 20 chunks(16 each), deltas, *)
(*   zero padding to 32 bits (if P, last octet = number of padding octets). *)
(* Symbols: 0 not received, 1 small delta (1 octet unsigned), 2 large delta *)
(* (2 octets signed), 3 reserved (no delta).  Deltas are in 250 us ticks.   *)
(* The value carries its header verbatim, as the library does.              *)
EXTENDS Hdr

\* chunk values: [ct |-> "rl", typ |-> 0, sym, run] or [ct |-> "sv", typ |-> 1, ss, syms]
SvLen(ss) == IF ss = 0 THEN 14 ELSE 7
SvMax(ss) == IF ss = 0 THEN 1 ELSE 3
WFChunkT(c) ==
  IF c.ct = "rl" THEN c.typ = 0 /\ c.sym \in 0..3 /\ c.run \in 1..8191
  ELSE /\ c.typ = 1 /\ c.ss \in {0, 1} /\ Len(c.syms) = SvLen(c.ss)
       /\ \A i \in 1..Len(c.syms) : c.syms[i] \in 0..SvMax(c.ss)

PackSyms(syms, w) ==     \* first symbol most significant, w bits each
  LET RECURSIVE go(_, _)
      go(i, acc) == IF i > Len(syms) THEN acc ELSE go(i + 1, acc * (2 ^ w) + syms[i])
  IN  go(1, 0)
ChunkWord(c) ==
  IF c.ct = "rl" THEN c.sym * 8192 + c.run
  ELSE 32768 + c.ss * 16384 + PackSyms(c.syms, IF c.ss = 0 THEN 1 ELSE 2)
EncChunkT(c) == BE16(ChunkWord(c))

DecChunkWord(w) ==
  IF w < 32768 THEN [ct |-> "rl", typ |-> 0, sym |-> Bits(w, 13, 2), run |-> w % 8192]
  ELSE IF Bits(w, 14, 1) = 0
       THEN [ct |-> "sv", typ |-> 1, ss |-> 0, syms |-> [i \in 1..14 |-> Bits(w, 14 - i, 1)]]
       ELSE [ct |-> "sv", typ |-> 1, ss |-> 1, syms |-> [i \in 1..7 |-> Bits(w, 14 - 2 * i, 2)]]

\* number of packet statuses a chunk accounts for
ChunkSpan(c) == IF c.ct = "rl" THEN c.run ELSE Len(c.syms)
\* the statuses a chunk contributes when `room` statuses are still missing
ChunkStatuses(c, room) ==
  IF c.ct = "rl" THEN [j \in 1..Min(c.run, room) |-> c.sym] ELSE c.syms
HasDelta(sym) == sym = 1 \/ sym = 2

\* Expand(chunks, count): per-packet statuses; vector symbols beyond the
\* count are kept (a valid encoding has them zero)
RECURSIVE ExpandFrom(_, _, _, _)
ExpandFrom(chunks, i, room, acc) ==
  IF i > Len(chunks) \/ room <= 0 THEN acc
  ELSE ExpandFrom(chunks, i + 1, room - ChunkSpan(chunks[i]), acc \o ChunkStatuses(chunks[i], room))
Expand(chunks, count) == ExpandFrom(chunks, 1, count, << >>)
DeltaTypesOf(statuses) == SelectSeq(statuses, HasDelta)

Covered(chunks, n) == SeqSum([i \in 1..n |-> ChunkSpan(chunks[i])])
\* every chunk is needed and together they reach the count; vector symbols
\* beyond the count are zero
ChunksFit(chunks, count) ==
  IF count = 0 THEN chunks = << >>
  ELSE /\ Len(chunks) >= 1
       /\ Covered(chunks, Len(chunks)) >= count
       /\ Covered(chunks, Len(chunks) - 1) < count
       /\ LET last == chunks[Len(chunks)]
              room == count - Covered(chunks, Len(chunks) - 1)
          IN  last.ct = "sv" => \A j \in 1..Len(last.syms) : j > room => last.syms[j] = 0

DeltaSize(d)   == IF d.t = 1 THEN 1 ELSE 2
\* a delta in memory is 250 * (ticks + big * 2^32) + rem microseconds, ticks in -2^31..2^31-1 (big # 0: beyond 32 bits of ticks)
DeltaInRange(d) == d.big = 0 /\ (IF d.t = 1 THEN d.ticks \in 0..255 ELSE d.ticks \in -32768..32767)
EncDelta(d)    == IF d.t = 1 THEN << d.ticks >> ELSE BE16((d.ticks + 65536) % 65536)
ContentTWCC(v) == 20 + 2 * Len(v.chunks) + SeqSum([i \in 1..Len(v.deltas) |-> DeltaSize(v.deltas[i])])
SizeTWCC(v)    == ContentTWCC(v) + PadLen(ContentTWCC(v))
PadTWCC(v)     == PadLen(ContentTWCC(v))

\* header consistent with the content (C05, C09)
TwccConsistent(v) ==
  /\ v.hdr.len = SizeTWCC(v) \div 4 - 1
  /\ (v.hdr.p => PadTWCC(v) > 0)

WFTWCC(v) ==
  /\ v.hdr.c = 15 /\ v.hdr.t = 205
  /\ SizeTWCC(v) <= 262144
  /\ TwccConsistent(v)
  /\ v.ref[1] = 0
  /\ \A i \in 1..Len(v.chunks) : WFChunkT(v.chunks[i])
  /\ ChunksFit(v.chunks, v.count)
  /\ DeltaTypesOf(Expand(v.chunks, v.count)) = [i \in 1..Len(v.deltas) |-> v.deltas[i].t]
  /\ \A i \in 1..Len(v.deltas) : DeltaInRange(v.deltas[i]) /\ (v.deltas[i].rem \in -249..249)
OverTWCC(v) ==
  \/ v.hdr.c > 31
  \/ \E i \in 1..Len(v.deltas) : v.deltas[i].t \in {1, 2} /\ ~DeltaInRange(v.deltas[i])
NormTWCC(v) == [v EXCEPT !.deltas = [i \in 1..Len(v.deltas) |-> [v.deltas[i] EXCEPT !.rem = 0]]]

EncTWCC(v) ==
  LET body == EncHdrRec(v.hdr) \o v.sender \o v.media \o BE16(v.base) \o BE16(v.count)
              \o SubSeq(v.ref, 2, 4) \o << v.fb >>
              \o FlatFixed(EncChunkT, v.chunks, 2) \o FlatMap(EncDelta, v.deltas)
      pad  == PadTWCC(v)
  IN  IF v.hdr.p /\ pad > 0 THEN body \o Zeros(pad - 1) \o << pad >> ELSE body \o Zeros(pad)

\* ---- decoding: chunk pass then delta pass (the step-machine form with its
\* invariants is TwccAlg.tla; this is the same computation as operators) ----
\* Delta placeholders are kept as runs [t |-> size class, n |-> how many] so that both passes are
\* linear in the packet size even for status counts near 2^16.
RunsOf(st) ==      \* runs of equal delta type in a (short) status list
  LET ds == DeltaTypesOf(st)
      RECURSIVE go(_, _)
      go(i, acc) == IF i > Len(ds) THEN acc
                    ELSE IF acc # << >> /\ acc[Len(acc)].t = ds[i] THEN go(i + 1, [acc EXCEPT ![Len(acc)].n = @ + 1])
                    ELSE go(i + 1, Append(acc, [t |-> ds[i], n |-> 1]))
  IN  go(1, << >>)
ChunkRuns(c, room) ==
  IF c.ct = "rl" THEN (IF HasDelta(c.sym) /\ Min(c.run, room) > 0 THEN << [t |-> c.sym, n |-> Min(c.run, room)] >> ELSE << >>)
  ELSE RunsOf(c.syms)
RECURSIVE ChunkPass(_, _, _, _, _, _)
\* pos: octet offset of the next chunk; room: statuses still missing
ChunkPass(b, pos, room, chunks, runs, ok) ==
  IF room <= 0 THEN [ok |-> ok, chunks |-> chunks, runs |-> runs, pos |-> pos]
  ELSE IF pos + 2 > Len(b) THEN [ok |-> FALSE]
  ELSE LET c == DecChunkWord(U16At(b, pos)) IN
       IF c.ct = "rl" /\ c.run = 0 THEN [ok |-> FALSE]
       ELSE LET clean == c.ct = "sv" => \A j \in 1..Len(c.syms) : j > room => c.syms[j] = 0
            IN  ChunkPass(b, pos + 2, room - ChunkSpan(c), Append(chunks, c), runs \o ChunkRuns(c, room), ok /\ clean)

\* lenient form used to judge whatever the library accepts: zero-length runs
\* are walked over; fits = every chunk lies inside b; clean = no vector symbol
\* beyond the status count is set
RECURSIVE ChunkPassL(_, _, _, _, _, _)
ChunkPassL(b, pos, room, chunks, runs, clean) ==
  IF room <= 0 THEN [fits |-> TRUE, clean |-> clean, chunks |-> chunks, runs |-> runs, pos |-> pos]
  ELSE IF pos + 2 > Len(b) THEN [fits |-> FALSE, clean |-> clean, chunks |-> chunks, runs |-> runs, pos |-> pos]
  ELSE LET c == DecChunkWord(U16At(b, pos))
           cl == c.ct = "sv" => \A j \in 1..Len(c.syms) : j > room => c.syms[j] = 0
       IN  ChunkPassL(b, pos + 2, room - ChunkSpan(c), Append(chunks, c), runs \o ChunkRuns(c, room), clean /\ cl)

DeltaAt(b, pos, t) ==
  IF t = 1 THEN [t |-> 1, ticks |-> At(b, pos), rem |-> 0, big |-> 0]
  ELSE LET w == U16At(b, pos) IN [t |-> 2, ticks |-> IF w >= 32768 THEN w - 65536 ELSE w, rem |-> 0, big |-> 0]
RECURSIVE DeltaPass(_, _, _, _)
DeltaPass(b, pos, runs, acc) ==
  IF runs = << >> THEN [ok |-> TRUE, deltas |-> acc, pos |-> pos]
  ELSE LET r == Head(runs)  w == IF r.t = 1 THEN 1 ELSE 2 IN
       IF pos + w * r.n > Len(b) THEN [ok |-> FALSE]
       ELSE DeltaPass(b, pos + w * r.n, Tail(runs), acc \o [i \in 1..r.n |-> DeltaAt(b, pos + w * (i - 1), r.t)])

DecTWCC(b) ==
  IF ~(Framed(b) /\ HPT(b) = 205 /\ HC(b) = 15) THEN NA
  ELSE IF Len(b) < 20 THEN Rej
  ELSE LET cp == ChunkPass(b, 20, U16At(b, 14), << >>, << >>, TRUE) IN
       IF ~cp.ok THEN NA
       ELSE LET dp == DeltaPass(b, cp.pos, cp.runs, << >>) IN
            IF ~dp.ok THEN NA
            ELSE LET r == Len(b) - dp.pos
                     padOK == IF HP(b) THEN r \in 1..3 /\ At(b, Len(b) - 1) = r /\ AllZero(Sl(b, dp.pos, r - 1))
                              ELSE r \in 0..3 /\ AllZero(From(b, dp.pos))
                 IN  IF ~padOK THEN NA
                     ELSE Ok([ k |-> "TWCC", hdr |-> [p |-> HP(b), c |-> 15, t |-> 205, len |-> HLen(b)],
                               sender |-> Sl(b, 4, 4), media |-> Sl(b, 8, 4),
                               base |-> U16At(b, 12), count |-> U16At(b, 14),
                               ref |-> << 0 >> \o Sl(b, 16, 3), fb |-> At(b, 19),
                               chunks |-> cp.chunks, deltas |-> dp.deltas ])
DestTWCC(v) == << v.media >>

\* unit codecs (C16)
DecRunLengthUnit(b) == IF Len(b) < 2 THEN Rej ELSE IF Len(b) > 2 THEN NA ELSE
  Ok([ct |-> "rl", typ |-> 0, sym |-> Bits(U16At(b, 0), 13, 2), run |-> U16At(b, 0) % 8192])
DecStatusVectorUnit(b) == IF Len(b) < 2 THEN Rej ELSE IF Len(b) > 2 THEN NA ELSE
  LET w == U16At(b, 0)  c == DecChunkWord(32768 + (w % 32768)) IN Ok(c)
DecDeltaUnit(b) ==
  IF Len(b) = 1 THEN Ok([t |-> 1, ticks |-> At(b, 0), rem |-> 0, big |-> 0])
  ELSE IF Len(b) = 2 THEN LET w == U16At(b, 0) IN Ok([t |-> 2, ticks |-> IF w >= 32768 THEN w - 65536 ELSE w, rem |-> 0, big |-> 0])
  ELSE IF Len(b) = 0 THEN Rej ELSE NA
=============================================================================
