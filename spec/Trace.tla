-------------------------------- MODULE Trace --------------------------------
(* Trace validation: a recorded execution of the real library (one ndjson   *)
(* event per public call, written by harness/exec) is replayed through the  *)
(* actions of Codec.tla.  An event whose logged result the specification    *)
(* allows takes the corresponding Codec action; one it does not allow takes *)
(* a Mismatch step that records the violated clauses in `bad` and installs  *)
(* the logged result, so the rest of the trace is still checked.            *)
(* Every event is judged under the strict model (D = {}) and, if that       *)
(* fails, under the named deviations, which attributes it to a known        *)
(* finding or leaves it as a violation.                                      *)
EXTENDS Codec, Json, IOUtils

TraceFile == IOEnv.VERIF_TRACE
Trace     == ndJsonDeserialize(TraceFile)

VARIABLES l,       \* index of the next event
          bad,     \* sequence of [l, tag, dev]: violated clauses so far
          stats    \* counters by class, for the evidence file
tvars == << vars, l, bad, stats >>

StatKeys == {"build", "setbuf", "marshal_ok", "marshal_err", "size", "dest", "header", "string",
             "dec_valid", "dec_mustreject", "dec_undefined", "dec_accepted", "dgram_valid", "dgram_mustreject",
             "dgram_undefined", "dgram_accepted", "unit_dec", "unit_enc", "reset", "roundtrips", "wf_values"}
TraceInit ==
  /\ Init /\ l = 1 /\ bad = << >> /\ stats = [k \in StatKeys |-> 0]

Bump(s, ks) == [k \in StatKeys |-> IF k \in ks THEN s[k] + 1 ELSE s[k]]

\* attribute the strict tags: those that vanish under all deviations are
\* known findings (dev = the single deviation that removes them, if one does)
Attribute(strict, all, single(_)) ==
  LET S == strict IN
  { [tag |-> t,
     dev |-> IF t \in all THEN ""
             ELSE IF \E d \in Deviations : t \notin single(d)
                  THEN CHOOSE d \in Deviations : t \notin single(d) ELSE "several"] : t \in S }
SetToSeq(S) == LET RECURSIVE go(_) go(T) == IF T = {} THEN << >> ELSE LET x == CHOOSE x \in T : TRUE IN << x >> \o go(T \ {x})
               IN go(S)
Record(tags) == bad \o [i \in 1..Cardinality(tags) |-> [l |-> l, tag |-> SetToSeq(tags)[i].tag, dev |-> SetToSeq(tags)[i].dev]]

\* judge with guard G(D) and extra (deviation-independent) tags X
Verdict(G(_), X) ==
  LET strict == G({}) \cup X IN
  IF strict = {} THEN {} ELSE Attribute(strict, G(Deviations) \cup X, LAMBDA d : G({d}) \cup X)

e == Trace[l]
Step(tags, ks) == /\ l' = l + 1 /\ bad' = Record(tags) /\ stats' = Bump(stats, ks)

Modified(ev) == IF ev.post.k # "SAME" THEN {"C18:packet_modified"} ELSE {}
InputMod(ev) == IF ~ev.bufsame THEN {"C18:input_modified"} ELSE {}

TrBuild ==
  /\ e.op = "build" /\ Build(e.h, e.v)
  /\ Step({}, {"build"} \cup (IF WFAny({}, e.v) THEN {"wf_values"} ELSE {}))
TrSetBuf == /\ e.op = "setbuf" /\ SetBuf(e.h, e.bytes) /\ Step({}, {"setbuf"})
TrReset ==
  /\ e.op = "reset"
  /\ pk' = [h \in H |-> None] /\ buf' = [h \in H |-> << >>] /\ prov' = [h \in H |-> None] /\ memo' = [h \in H |-> NoMemo]
  /\ Step({}, {"reset"})

MarshalRes(ev) == [ok |-> ev.ok, out |-> ev.out, panic |-> ev.panic]
TrMarshal ==
  /\ e.op = "marshal"
  /\ LET res == MarshalRes(e)
         G(D) == MarshalGuard(D, e.h, res)
     IN  /\ buf'  = [buf EXCEPT ![e.h] = IF res.ok THEN res.out ELSE << >>]
         /\ prov' = [prov EXCEPT ![e.h] = IF res.ok THEN pk[e.h] ELSE None]
         /\ memo' = [memo EXCEPT ![e.h].marshal = res]
         /\ pk'   = IF e.post.k = "SAME" THEN pk ELSE [pk EXCEPT ![e.h] = e.post]
         /\ Step(Verdict(G, Modified(e)), {IF res.ok THEN "marshal_ok" ELSE "marshal_err"})
TrSize ==
  /\ e.op = "size"
  /\ LET G(D) == SizeGuard(D, e.h, e.out) IN
     /\ memo' = [memo EXCEPT ![e.h].size = e.out] /\ UNCHANGED << buf, prov >>
     /\ pk' = IF e.post.k = "SAME" THEN pk ELSE [pk EXCEPT ![e.h] = e.post]
     /\ Step(Verdict(G, Modified(e)), {"size"})
TrDest ==
  /\ e.op = "dest"
  /\ LET G(D) == DestGuard(D, e.h, e.out) IN
     /\ memo' = [memo EXCEPT ![e.h].dest = e.out] /\ UNCHANGED << buf, prov >>
     /\ pk' = IF e.post.k = "SAME" THEN pk ELSE [pk EXCEPT ![e.h] = e.post]
     /\ Step(Verdict(G, Modified(e)), {"dest"})
TrHeader ==
  /\ e.op = "header"
  /\ LET G(D) == HeaderGuard(D, e.h, e.out) IN
     /\ UNCHANGED << buf, prov, memo >>
     /\ pk' = IF e.post.k = "SAME" THEN pk ELSE [pk EXCEPT ![e.h] = e.post]
     /\ Step(Verdict(G, Modified(e)), {"header"})
TrString ==
  /\ e.op = "string"
  /\ LET res == [panic |-> e.panic, out |-> e.out]
         G(D) == StringGuard(e.h, res) IN
     /\ memo' = [memo EXCEPT ![e.h].str = e.out] /\ UNCHANGED << buf, prov >>
     /\ pk' = IF e.post.k = "SAME" THEN pk ELSE [pk EXCEPT ![e.h] = e.post]
     /\ Step(Verdict(G, Modified(e)), {"string"})

DecRes(ev) == [ok |-> ev.ok, out |-> ev.out, panic |-> ev.panic, slow |-> ev.slow, alloc |-> ev.alloc]
DecClass(prefix, st, ok) ==
  {prefix \o (IF st = "ok" THEN "_valid" ELSE IF st = "rej" THEN "_mustreject" ELSE "_undefined")}
  \cup (IF ok THEN {prefix \o "_accepted"} ELSE {})
TrUnmarshal ==
  /\ e.op = "unmarshal"
  /\ LET res == DecRes(e)
         G(D) == UnmarshalGuard(D, e.entry, e.b, res) IN
     /\ pk' = [pk EXCEPT ![e.h] = IF res.ok THEN res.out ELSE None]
     /\ memo' = [memo EXCEPT ![e.h] = NoMemo] /\ UNCHANGED << buf, prov >>
     /\ Step(Verdict(G, InputMod(e)),
             DecClass("dec", DecAs({}, e.entry, buf[e.b]).st, res.ok)
             \cup (IF prov[e.b].k = e.entry THEN {"roundtrips"} ELSE {}))
TrDatagram ==
  /\ e.op = "datagram"
  /\ LET res == DecRes(e)
         G(D) == DatagramGuard(D, e.b, res) IN
     /\ pk' = [pk EXCEPT ![e.h] = IF res.ok THEN [k |-> "LIST", pkts |-> res.out] ELSE None]
     /\ memo' = [memo EXCEPT ![e.h] = NoMemo] /\ UNCHANGED << buf, prov >>
     /\ Step(Verdict(G, InputMod(e)),
             DecClass("dgram", DecDatagram({}, buf[e.b]).st, res.ok)
             \cup (IF prov[e.b].k # "NONE" THEN {"roundtrips"} ELSE {}))
TrUnitDec ==
  /\ e.op = "udec"
  /\ LET res == DecRes(e)
         G(D) == UnitDecodeTags(e.entry, buf[e.b], res) IN
     /\ UNCHANGED vars /\ Step(Verdict(G, InputMod(e)), {"unit_dec"})
TrUnitEnc ==
  /\ e.op = "uenc"
  /\ LET res == MarshalRes(e)
         G(D) == UnitEncodeTags(e.entry, e.v, res) IN
     /\ buf' = [buf EXCEPT ![e.h] = IF res.ok THEN res.out ELSE << >>]
     /\ prov' = [prov EXCEPT ![e.h] = None] /\ UNCHANGED << pk, memo >>
     /\ Step(Verdict(G, {}), {"unit_enc"})

TraceNext ==
  /\ l <= Len(Trace)
  /\ \/ TrBuild \/ TrSetBuf \/ TrReset \/ TrMarshal \/ TrSize \/ TrDest \/ TrHeader \/ TrString
     \/ TrUnmarshal \/ TrDatagram \/ TrUnitDec \/ TrUnitEnc

TraceSpec == TraceInit /\ [][TraceNext]_tvars

\* printed once, in the final state; the orchestrator parses these lines
Report ==
  l = Len(Trace) + 1 =>
     /\ PrintT(<< "VERIF_BAD", ToJson(bad) >>)
     /\ PrintT(<< "VERIF_STATS", ToJson(stats) >>)
     /\ PrintT(<< "VERIF_DONE", l - 1 >>)
=============================================================================
