-------------------------------- MODULE Trace --------------------------------
(* Trace validation: a recorded execution of the real library (one ndjson   *)
(* event per public call, written by harness/exec) is replayed through the  *)
(* actions of Codec.tla.  An event whose logged result the specification    *)
(* allows takes the corresponding Codec action; one it does not allow takes *)
(* a Mismatch step that records the violated clauses in `bad` and installs  *)
(* the logged result, so the rest of the trace is still checked.            *)
(* Every event is judged under the strict model (D = {}) and, if that       *)
(* fails, under the named deviations, which attributes it to a known        *)
(* finding or leaves it as a violation.                                      *)
EXTENDS Codec, NackDefs, Units, Json, IOUtils

TraceFile == IOEnv.VERIF_TRACE
Trace     == ndJsonDeserialize(TraceFile)

VARIABLES l,       \* index of the next event
          bad,     \* sequence of [l, tag, dev]: violated clauses so far
          stats,   \* counters by class, for the evidence file
          nt       \* the current case (since the last reset) had a judgement that binds the code
tvars == << vars, l, bad, stats, nt >>

StatKeys == {"nack", "validate", "cname", "build", "setbuf", "marshal_ok", "marshal_err", "size", "dest", "header", "string",
             "dec_valid", "dec_mustreject", "dec_undefined", "dec_accepted", "dgram_valid", "dgram_mustreject",
             "dgram_undefined", "dgram_accepted", "unit_dec", "unit_enc", "reset", "roundtrips", "wf_values",
             "cases_nontrivial"}
Binding == {"nack", "validate", "dec_valid", "dec_mustreject", "dgram_valid", "dgram_mustreject", "wf_values", "unit_dec", "unit_enc", "roundtrips"}
TraceInit ==
  /\ Init /\ l = 1 /\ bad = << >> /\ stats = [k \in StatKeys |-> 0] /\ nt = FALSE

Bump(s, ks) == [k \in StatKeys |-> IF k \in ks THEN s[k] + 1 ELSE s[k]]

\* attribute the strict tags: those that vanish under all deviations are
\* known findings (dev = the single deviation that removes them, if one does)
\* When no single deviation removes a tag (a list holding a SliceLossIndication and a CCFB packet needs
\* two), the smallest set that does is named "A+B" in a fixed order; the check then requires a listed
\* finding for every component.
DevSeq == << "CCFB_ANY_FMT", "CCFB_NUM", "REMB_MANTISSA0", "SLI_PT205" >>
DevName(S) ==
  LET RECURSIVE go(_, _)
      go(i, acc) == IF i > Len(DevSeq) THEN acc
                    ELSE IF DevSeq[i] \in S THEN go(i + 1, IF acc = "" THEN DevSeq[i] ELSE acc \o "+" \o DevSeq[i])
                    ELSE go(i + 1, acc)
  IN go(1, "")
Attribute(strict, all, under(_)) ==
  LET S == strict
      OfSize(t, n) == { T \in SUBSET Deviations : Cardinality(T) = n /\ t \notin under(T) }
  IN
  { [tag |-> t,
     dev |-> IF t \in all THEN ""
             ELSE IF \E d \in Deviations : t \notin under({d})
                  THEN CHOOSE d \in Deviations : t \notin under({d})
                  ELSE IF OfSize(t, 2) # {} THEN DevName(CHOOSE T \in OfSize(t, 2) : TRUE)
                  ELSE IF OfSize(t, 3) # {} THEN DevName(CHOOSE T \in OfSize(t, 3) : TRUE)
                  ELSE DevName(Deviations)] : t \in S }
SetToSeq(S) == LET RECURSIVE go(_) go(T) == IF T = {} THEN << >> ELSE LET x == CHOOSE x \in T : TRUE IN << x >> \o go(T \ {x})
               IN go(S)
Record(tags, kind) == LET sq == SetToSeq(tags) IN bad \o [i \in 1..Len(sq) |-> [l |-> l, tag |-> sq[i].tag, dev |-> sq[i].dev, kind |-> kind]]

\* judge with guard G(D) and extra (deviation-independent) tags X
\* rel: whether a deviation can matter for this event at all (it involves SLI, CCFB or REMB code, or a
\* datagram or list that may contain them); if not, the strict clauses stand without re-evaluation
DevKinds == {"SLI", "CCFB", "REMB", "LIST", "CP", "DGRAM"}
\* a datagram involves a deviation only if one of its frames has the (PT, FMT) of SLI, CCFB or REMB
DgramRel(b) ==
  LET sp == SplitFrames(b, << >>) IN
  \E i \in 1..Len(sp.frames) : LET f == sp.frames[i] IN
     (HPT(f) = 205 /\ HC(f) \in {2, 11}) \/ (HPT(f) = 206 /\ HC(f) \in {2, 15})
Verdict(G(_), X, rel) ==
  LET strict == G({}) \cup X IN
  IF strict = {} THEN {}
  ELSE IF ~rel THEN { [tag |-> t, dev |-> ""] : t \in strict }
  ELSE LET all == G(Deviations) \cup X IN
       IF strict \subseteq all THEN { [tag |-> t, dev |-> ""] : t \in strict }     \* no deviation explains anything
       ELSE Attribute(strict, all, LAMBDA T : G(T) \cup X)

e == Trace[l]
Step(tags, ks, kind) ==
  /\ l' = l + 1 /\ bad' = Record(tags, kind)
  /\ IF "reset" \in ks THEN /\ stats' = Bump(stats, ks \cup (IF nt THEN {"cases_nontrivial"} ELSE {})) /\ nt' = FALSE
     ELSE /\ stats' = Bump(stats, ks) /\ nt' = (nt \/ ks \cap Binding # {})

\* post: the packet's projection changed; memsame = FALSE: memory the caller owns around the packet was
\* written (spare capacity behind one of its byte slices, the buffer it was decoded from, or a result
\* the library returned from an earlier call in the same case)
Modified(ev) == (IF ev.post.k # "SAME" THEN {"C18:packet_modified"} ELSE {})
                \cup (IF "memsame" \in DOMAIN ev /\ ~ev.memsame THEN {"C18:caller_memory_written"} ELSE {})
\* bufsame = FALSE: the input octets, or the memory behind them (the slice's spare capacity), were written;
\* tailsame = FALSE: the same octets with other memory behind them decode differently
InputMod(ev) == (IF ~ev.bufsame THEN {"C18:input_modified"} ELSE {})
                \cup (IF "distinct" \in DOMAIN ev /\ ~ev.distinct THEN {"C18:one_object_returned_for_two_frames", "C06:one_object_returned_for_two_frames"} ELSE {})
                \cup (IF "tailsame" \in DOMAIN ev /\ ~ev.tailsame
                      THEN {"C18:decode_depends_on_memory_beyond_input"} \cup (IF ev.op = "datagram" THEN {"C06:depends_on_octets_outside_datagram"} ELSE {})
                      ELSE {})

TrBuild ==
  /\ e.op = "build" /\ Build(e.h, e.v)
  /\ Step({}, {"build"} \cup (IF WFAny({}, e.v) THEN {"wf_values"} ELSE {}), "-")
TrSetBuf == /\ e.op = "setbuf" /\ SetBuf(e.h, e.bytes) /\ Step({}, {"setbuf"}, "-")
\* the exported named constants have the numbers the RFCs assign (a caller writes rtcp.ECNECT0, not 2)
TrConsts ==
  /\ e.op = "consts" /\ UNCHANGED vars
  /\ Step(IF e.out = ApiConstants THEN {} ELSE { [tag |-> t, dev |-> ""] : t \in {"C03:api_constant", "C04:api_constant", "C07:api_constant"} }, {"build"}, "CONST")
\* the caller wrote into the spare capacity behind the slices of a packet it holds: the packet is still the same value
TrScribble ==
  /\ e.op = "scribble"
  /\ UNCHANGED << buf, prov, memo, fromdec, provdec >>
  /\ pk' = IF e.post.k = "SAME" THEN pk ELSE [pk EXCEPT ![e.h] = e.post]
  /\ Step(IF e.post.k = "SAME" THEN {} ELSE { [tag |-> "C18:parts_of_a_packet_share_memory", dev |-> ""] }, {"build"}, pk[e.h].k)
\* the caller recombines packets it holds into a new list (no library call)
TrPick ==
  /\ e.op = "pick"
  /\ pk' = [pk EXCEPT ![e.h] = IF pk[e.src].k = "LIST" THEN [k |-> "LIST", pkts |-> [i \in 1..Len(e.idx) |-> pk[e.src].pkts[e.idx[i]]]] ELSE None]
  /\ memo' = [memo EXCEPT ![e.h] = NoMemo] /\ fromdec' = fromdec \ {e.h} /\ UNCHANGED << buf, prov, provdec >>
  /\ Step({}, {"build"}, "-")
TrReset ==
  /\ e.op = "reset"
  /\ pk' = [h \in H |-> None] /\ buf' = [h \in H |-> << >>] /\ prov' = [h \in H |-> None] /\ memo' = [h \in H |-> NoMemo]
  /\ fromdec' = {} /\ provdec' = {}
  /\ Step({}, {"reset"}, "-")

MarshalRes(ev) == [ok |-> ev.ok, out |-> ev.out, panic |-> ev.panic]
TrMarshal ==
  /\ e.op = "marshal"
  /\ LET res == MarshalRes(e)
         G(D) == IF pk[e.h].k = "NONE" THEN {"TRACE:call_on_missing_packet"} ELSE MarshalGuard(D, e.h, res)
     IN  /\ buf'  = [buf EXCEPT ![e.h] = IF res.ok THEN res.out ELSE << >>]
         /\ prov' = [prov EXCEPT ![e.h] = IF res.ok THEN pk[e.h] ELSE None]
         /\ memo' = [memo EXCEPT ![e.h].marshal = res, ![e.h].hasstr = IF ContainsXR(pk[e.h]) THEN FALSE ELSE @]
         /\ provdec' = IF res.ok /\ e.h \in fromdec THEN provdec \cup {e.h} ELSE provdec \ {e.h}
         /\ UNCHANGED fromdec
         /\ pk'   = IF e.post.k = "SAME" THEN pk ELSE [pk EXCEPT ![e.h] = e.post]
         \* C09 compares the second decode with the packets the caller holds: Marshal must leave them as they were
         /\ Step(Verdict(G, Modified(e) \cup (IF e.h \in fromdec /\ pk[e.h].k = "LIST" /\ Modified(e) # {} THEN {"C09:marshal_changed_decoded_packets"} ELSE {}),
                         (pk[e.h].k \in DevKinds)), {IF res.ok THEN "marshal_ok" ELSE "marshal_err"}, pk[e.h].k)
TrSize ==
  /\ e.op = "size"
  /\ LET G(D) == IF pk[e.h].k = "NONE" THEN {"TRACE:call_on_missing_packet"} ELSE SizeGuard(D, e.h, e.out) IN
     /\ memo' = [memo EXCEPT ![e.h].size = e.out] /\ UNCHANGED << buf, prov, fromdec, provdec >>
     /\ pk' = IF e.post.k = "SAME" THEN pk ELSE [pk EXCEPT ![e.h] = e.post]
     /\ Step(Verdict(G, Modified(e), (pk[e.h].k \in DevKinds)), {"size"}, pk[e.h].k)
TrDest ==
  /\ e.op = "dest"
  /\ LET G(D) == IF pk[e.h].k = "NONE" THEN {"TRACE:call_on_missing_packet"} ELSE DestGuard(D, e.h, e.out) IN
     /\ memo' = [memo EXCEPT ![e.h].dest = e.out, ![e.h].hasdest = TRUE] /\ UNCHANGED << buf, prov, fromdec, provdec >>
     /\ pk' = IF e.post.k = "SAME" THEN pk ELSE [pk EXCEPT ![e.h] = e.post]
     /\ Step(Verdict(G, Modified(e), (pk[e.h].k \in DevKinds)), {"dest"}, pk[e.h].k)
TrHeader ==
  /\ e.op = "header"
  /\ LET G(D) == IF pk[e.h].k = "NONE" THEN {"TRACE:call_on_missing_packet"} ELSE HeaderGuard(D, e.h, e.out) IN
     /\ UNCHANGED << buf, prov, memo, fromdec, provdec >>
     /\ pk' = IF e.post.k = "SAME" THEN pk ELSE [pk EXCEPT ![e.h] = e.post]
     /\ Step(Verdict(G, Modified(e), (pk[e.h].k \in DevKinds)), {"header"}, pk[e.h].k)
\* Len() accessor (C05) and ReceiverEstimatedMaximumBitrate.MarshalTo (C03, C05, C08)
TrLen ==
  /\ e.op = "lenacc"
  /\ LET G(D) == IF pk[e.h].k = "NONE" THEN {"TRACE:call_on_missing_packet"}
                 ELSE IF WFAny(D, pk[e.h]) /\ e.out # SizeAny(pk[e.h]) THEN {"C05:len_accessor"} ELSE {} IN
     /\ UNCHANGED << buf, prov, memo, fromdec, provdec >>
     /\ pk' = IF e.post.k = "SAME" THEN pk ELSE [pk EXCEPT ![e.h] = e.post]
     /\ Step(Verdict(G, Modified(e), (pk[e.h].k \in DevKinds)), {"size"}, pk[e.h].k)
TrMarshalTo ==
  /\ e.op = "marshalto"
  /\ LET v == pk[e.h]
         G(D) == IF v.k # "REMB" THEN {"TRACE:call_on_missing_packet"}
                 ELSE IF e.panic THEN {"PANIC:marshalto"}
                 ELSE (IF WF(D, v) /\ e.size >= Size(v) /\ (~e.ok \/ e.n # Size(v) \/ SubSeq(e.out, 1, Size(v)) # EncPacket(D, v))
                       THEN {"C03:marshalto_bytes"} ELSE {})
                      \cup (IF WF(D, v) /\ e.ok /\ e.size > Size(v) /\ (\E i \in (Size(v) + 1)..e.size : e.out[i] # 238)
                            THEN {"C05:marshalto_wrote_beyond_size"} ELSE {})
                      \cup (IF e.size < SizeREMB(v) /\ e.ok THEN {"C08:marshalto_short_buffer_accepted"} ELSE {})
                      \cup (IF Over(v) /\ e.ok THEN {"C08:over_limit_accepted"} ELSE {}) IN
     /\ UNCHANGED << buf, prov, memo, fromdec, provdec >>
     /\ pk' = IF e.post.k = "SAME" THEN pk ELSE [pk EXCEPT ![e.h] = e.post]
     /\ Step(Verdict(G, Modified(e), (pk[e.h].k \in DevKinds)), {"marshal_ok"}, pk[e.h].k)

TrString ==
  /\ e.op = "string"
  /\ LET res == [panic |-> e.panic, out |-> e.out]
         G(D) == IF pk[e.h].k = "NONE" THEN {"TRACE:call_on_missing_packet"} ELSE StringGuard(e.h, res) IN
     /\ memo' = [memo EXCEPT ![e.h].str = e.out, ![e.h].hasstr = TRUE] /\ UNCHANGED << buf, prov, fromdec, provdec >>
     /\ pk' = IF e.post.k = "SAME" THEN pk ELSE [pk EXCEPT ![e.h] = e.post]
     /\ Step(Verdict(G, Modified(e), (pk[e.h].k \in DevKinds)), {"string"}, pk[e.h].k)

TrValidate ==
  /\ e.op = "validate"
  /\ LET G(D) == IF pk[e.h].k = "NONE" THEN {"TRACE:call_on_missing_packet"} ELSE ValidateTags(pk[e.h], [ok |-> e.ok, panic |-> e.panic]) IN
     /\ UNCHANGED << buf, prov, memo, fromdec, provdec >>
     /\ pk' = IF e.post.k = "SAME" THEN pk ELSE [pk EXCEPT ![e.h] = e.post]
     /\ Step(Verdict(G, Modified(e), (pk[e.h].k \in DevKinds)), {"validate", "wf_values"}, pk[e.h].k)
TrCname ==
  /\ e.op = "cname"
  /\ LET G(D) == IF pk[e.h].k = "NONE" THEN {"TRACE:call_on_missing_packet"} ELSE CnameTags(pk[e.h], [ok |-> e.ok, panic |-> e.panic, out |-> e.out]) IN
     /\ UNCHANGED << buf, prov, memo, fromdec, provdec >>
     /\ pk' = IF e.post.k = "SAME" THEN pk ELSE [pk EXCEPT ![e.h] = e.post]
     /\ Step(Verdict(G, Modified(e), (pk[e.h].k \in DevKinds)), {"cname"}, pk[e.h].k)

\* NACK helpers (C12): stateless calls
TrNack ==
  /\ e.op \in {"nackpairs", "packetlists", "ranges"}
  /\ LET tags == IF e.panic THEN {"C12:panic"}
                 ELSE CASE e.op = "nackpairs" -> NackPairsTags(e.args, e.out) \cup (IF ~e.argsame THEN {"C18:input_modified"} ELSE {})
                        [] e.op = "packetlists" -> PacketListsTags(e.id, e.args, e.out)
                        [] e.op = "ranges" -> RangesTags(e.pid, e.blp, e.out) \cup (IF ~e.argsame THEN {"C18:packet_modified"} ELSE {})
         G(D) == tags IN
     /\ UNCHANGED vars /\ Step(Verdict(G, {}, FALSE), {"nack"}, "NACKHELPER")

\* REMB tables (C14)
TrRemb ==
  /\ e.op \in {"rembdec", "rembenc"}
  /\ LET G(D) == IF e.panic THEN {"C14:panic"}
                 ELSE IF e.op = "rembdec" THEN RembDecTags(D, e.exp, e.args, e.out) ELSE RembEncTags(e.args, e.out) IN
     /\ UNCHANGED vars /\ Step(Verdict(G, {}, TRUE), {"nack"}, "REMB")

\* unit tables and exhaustive Go sweeps (C16)
TrTables ==
  /\ e.op \in {"utable", "rletable", "sweep", "enumstring"}
  /\ LET G(D) == IF e.panic THEN {"C16:panic"}
                 ELSE CASE e.op = "utable" -> UnitRowTags(e.entry, e.start, e.out)
                        [] e.op = "rletable" -> RleRowTags(e.start, e.out)
                        [] e.op = "enumstring" -> (IF e.failures # << >> THEN {"C17:enum_string_panic"} ELSE {})
                        [] e.op = "sweep" -> (IF e.failures # << >> THEN
                                                 {IF e.entry = "nackequiv32" THEN "C12:equivariance"
                                                  ELSE IF e.entry \in {"rembscale24", "rembencint", "rembenctop18", "rembencscale", "rembencsat"} THEN "C14:scaling" ELSE "C16:sweep"} ELSE {}) IN
     /\ UNCHANGED vars /\ Step(Verdict(G, {}, FALSE), {"nack"}, IF e.op = "rletable" THEN "rle" ELSE e.entry)

DecRes(ev) == [ok |-> ev.ok, out |-> ev.out, panic |-> ev.panic, slow |-> ev.slow, alloc |-> ev.alloc]
DecClass(prefix, st, ok) ==
  {prefix \o (IF st = "ok" THEN "_valid" ELSE IF st = "rej" THEN "_mustreject" ELSE "_undefined")}
  \cup (IF ok THEN {prefix \o "_accepted"} ELSE {})
TrUnmarshal ==
  /\ e.op = "unmarshal"
  /\ LET res == DecRes(e)
         \* C11: CompoundPacket.Unmarshal agrees with rtcp.Unmarshal + Validate on
         \* the same buffer (e.dh = handle holding that datagram result, 0 if none)
         X == IF e.entry = "CP" /\ e.dh # 0 /\ ~res.panic THEN
                 (IF pk[e.dh].k = "LIST" THEN
                     (IF res.ok # ValidateRun(pk[e.dh].pkts) THEN {"C11:unmarshal_vs_validate"}
                      ELSE IF res.ok /\ res.out.pkts # pk[e.dh].pkts THEN {"C11:unmarshal_vs_datagram"} ELSE {})
                  ELSE (IF res.ok THEN {"C11:unmarshal_vs_datagram"} ELSE {}))
              ELSE {}
         \* C13: the same bytes up to the declared length give the same result
         Y == IF e.eqh = 0 \/ res.panic \/ Len(buf[e.eqb]) < 4 \/ HLen(buf[e.eqb]) >= 16383
                 \/ Len(buf[e.eqb]) < 4 * (HLen(buf[e.eqb]) + 1) THEN {}
              ELSE IF res.ok # (pk[e.eqh].k # "NONE") \/ (res.ok /\ res.out # pk[e.eqh])
                   THEN {"C13:depends_on_octets_after_declared_length"} ELSE {}
         Z == IF e.entry = "TWCC" THEN Twcc13Tags(buf[e.b], res) ELSE IF e.entry = "REMB" THEN Remb14Tags(buf[e.b], res) ELSE {}
         \* C18: a receiver that already held a packet ends up with what a fresh receiver gets from the same
         \* octets, and the decode writes nothing the caller still owns
         R == IF "reuse" \notin DOMAIN e \/ res.panic THEN {}
              ELSE (IF e.fresh.ok # res.ok \/ (res.ok /\ e.fresh.out # res.out) THEN {"C18:decode_depends_on_receiver_history"} ELSE {})
                   \cup (IF ~e.memsame THEN {"C18:caller_memory_written"} ELSE {})
         G(D) == UnmarshalGuard(D, e.entry, e.b, res) \cup X \cup Y \cup Z \cup R IN
     /\ pk' = [pk EXCEPT ![e.h] = IF res.ok THEN res.out ELSE None]
     /\ memo' = [memo EXCEPT ![e.h] = SrcMemo(e.b, e.entry)] /\ UNCHANGED << buf, prov, provdec >>
     /\ fromdec' = IF res.ok THEN fromdec \cup {e.h} ELSE fromdec \ {e.h}
     /\ Step(Verdict(G, InputMod(e), (e.entry \in DevKinds)),
             DecClass("dec", DecEntry({}, e.entry, buf[e.b]).st, res.ok)
             \cup (IF prov[e.b].k = e.entry THEN {"roundtrips"} ELSE {}), e.entry)
\* decoding into a receiver that already decoded something: only totality is judged (C01)
TrUnmarshal2 ==
  /\ e.op = "unmarshal2"
  /\ LET res == [panic |-> e.panic, slow |-> e.slow, alloc |-> e.alloc]
         G(D) == (IF res.panic THEN {"C01:reused_receiver_panic"} ELSE {})
                 \cup (IF res.alloc > AllocBound(Len(buf[e.b]) + Len(e.first)) THEN {"C01:reused_receiver_alloc"} ELSE {}) IN
     /\ UNCHANGED vars /\ Step(Verdict(G, InputMod(e), FALSE), {"dec_undefined"}, e.entry)
TrDatagram ==
  /\ e.op = "datagram"
  /\ LET res == DecRes(e)
         \* C06 locality: when every part is a complete frame, the result is the
         \* concatenation of the parts' own results, or an error if any part failed
         ps == e.parts
         X == IF ps = << >> \/ res.panic \/ (\E i \in 1..Len(ps) : ~Framed(buf[ps[i]])) THEN {}
              ELSE IF \A i \in 1..Len(ps) : pk[ps[i]].k = "LIST"
                   THEN (IF ~res.ok THEN {"C06:not_local_rejected"}
                         ELSE IF res.out # FlatSeq([i \in 1..Len(ps) |-> pk[ps[i]].pkts]) THEN {"C06:not_local"} ELSE {})
                   ELSE (IF res.ok THEN {"C06:not_all_or_nothing"} ELSE {})
         G(D) == DatagramGuard(D, e.b, res) \cup X IN
     /\ pk' = [pk EXCEPT ![e.h] = IF res.ok THEN [k |-> "LIST", pkts |-> res.out] ELSE None]
     /\ memo' = [memo EXCEPT ![e.h] = SrcMemo(e.b, "LIST")] /\ UNCHANGED << buf, prov, provdec >>
     /\ fromdec' = IF res.ok THEN fromdec \cup {e.h} ELSE fromdec \ {e.h}
     /\ Step(Verdict(G, InputMod(e), DgramRel(buf[e.b])),
             DecClass("dgram", DecDatagram({}, buf[e.b]).st, res.ok)
             \cup (IF prov[e.b].k # "NONE" THEN {"roundtrips"} ELSE {}), "DGRAM")
TrUnitDec ==
  /\ e.op = "udec"
  /\ LET res == DecRes(e)
         \* a sub-structure value that decoded something before gives what a fresh one gives (C16, C18)
         R == IF "reuse" \notin DOMAIN e \/ res.panic THEN {}
              ELSE IF e.fresh.ok # res.ok \/ (res.ok /\ e.fresh.out # res.out)
                   THEN {"C16:unit_decode_depends_on_receiver_history", "C18:decode_depends_on_receiver_history"} ELSE {}
         G(D) == UnitDecodeTags(e.entry, buf[e.b], res) \cup R IN
     /\ UNCHANGED vars /\ Step(Verdict(G, InputMod(e), (e.entry \in DevKinds)), {"unit_dec"}, e.entry)
TrUnitEnc ==
  /\ e.op = "uenc"
  /\ LET res == MarshalRes(e)
         G(D) == UnitEncodeTags(e.entry, e.v, res) IN
     /\ buf' = [buf EXCEPT ![e.h] = IF res.ok THEN res.out ELSE << >>]
     /\ prov' = [prov EXCEPT ![e.h] = None] /\ provdec' = provdec \ {e.h} /\ UNCHANGED << pk, memo, fromdec >>
     /\ Step(Verdict(G, {}, (e.entry \in DevKinds)), {"unit_enc"}, e.entry)

TraceNext ==
  /\ l <= Len(Trace)
  /\ \/ TrBuild \/ TrSetBuf \/ TrPick \/ TrReset \/ TrMarshal \/ TrSize \/ TrDest \/ TrHeader \/ TrString
     \/ TrScribble \/ TrConsts \/ TrUnmarshal \/ TrUnmarshal2 \/ TrDatagram \/ TrUnitDec \/ TrUnitEnc \/ TrValidate \/ TrCname \/ TrNack \/ TrRemb \/ TrTables \/ TrLen \/ TrMarshalTo

TraceSpec == TraceInit /\ [][TraceNext]_tvars

\* printed once, in the final state; the orchestrator parses these lines
Report ==
  l = Len(Trace) + 1 =>
     /\ PrintT(<< "VERIF_BAD", ToJson(bad) >>)
     /\ PrintT(<< "VERIF_STATS", ToJson(Bump(stats, IF nt THEN {"cases_nontrivial"} ELSE {})) >>)
     /\ PrintT(<< "VERIF_DONE", l - 1 >>)
=============================================================================
