--------------------------------- MODULE Fb ---------------------------------
(* Feedback messages: NACK, PLI, SLI (RFC 4585), FIR (RFC 5104), RRR (RFC    *)
(* 6051), REMB (draft-alvestrand-rmcat-remb-03).  D is the set of named      *)
(* library deviations to model (empty = strict RFC); see Deviations in       *)
(* Wire.tla and known_findings.jsonl.                                         *)
EXTENDS Hdr

\* common feedback header: 4 sender SSRC, 8 media SSRC
FbHead(pt, fmt, size, v) == EncHdr(FALSE, fmt, pt, size \div 4 - 1) \o v.sender \o v.media
IsFb(b, pt, fmt) == Framed(b) /\ HPT(b) = pt /\ HC(b) = fmt /\ ~HP(b)

---------------------------------------------------------------------------
\* NACK 205/1: entries PID(16) BLP(16); at least one; the library refuses more than 253
SizeNACK(v) == 12 + 4 * Len(v.nacks)
WFNACK(v)   == Len(v.nacks) \in 1..253 /\ \A i \in 1..Len(v.nacks) : v.nacks[i].pid \in 0..65535 /\ v.nacks[i].blp \in 0..65535
OverNACK(v) == FALSE
EncPair(n)  == BE16(n.pid) \o BE16(n.blp)
EncNACK(v)  == FbHead(205, 1, SizeNACK(v), v) \o FlatFixed(EncPair, v.nacks, 4)
DecNACK(b)  ==
  IF ~IsFb(b, 205, 1) THEN NA
  ELSE IF Len(b) < 12 THEN Rej                  \* shorter than the two SSRCs
  ELSE IF Len(b) < 16 THEN NA                   \* no FCI entry: invalid by RFC 4585, but no property demands the error
  ELSE Ok([ k |-> "NACK", sender |-> Sl(b, 4, 4), media |-> Sl(b, 8, 4),
            nacks |-> [i \in 1..((Len(b) - 12) \div 4) |-> [pid |-> U16At(b, 8 + 4 * i), blp |-> U16At(b, 10 + 4 * i)]] ])
DestNACK(v) == << v.media >>

---------------------------------------------------------------------------
\* RRR 205/5 and PLI 206/1: no FCI, length field 2
WFFix(v)       == TRUE
EncRRR(v)      == FbHead(205, 5, 12, v)
EncPLI(v)      == FbHead(206, 1, 12, v)
DecFix(b, pt, fmt, k) ==
  IF ~IsFb(b, pt, fmt) THEN NA
  ELSE IF Len(b) < 12 THEN Rej
  ELSE IF Len(b) # 12 THEN NA
  ELSE Ok([k |-> k, sender |-> Sl(b, 4, 4), media |-> Sl(b, 8, 4)])
DecRRR(b)      == DecFix(b, 205, 5, "RRR")
DecPLI(b)      == DecFix(b, 206, 1, "PLI")
DestFix(v)     == << v.media >>

---------------------------------------------------------------------------
\* SLI 206/2: entries First(13) Number(13) PictureID(6).
\* Deviation SLI_PT205: the library uses packet type 205.
SliPT(D)    == IF "SLI_PT205" \in D THEN 205 ELSE 206
SizeSLI(v)  == 12 + 4 * Len(v.sli)
WFSLI(v)    == Len(v.sli) \in 1..253 /\ \A i \in 1..Len(v.sli) :
                 v.sli[i].first \in 0..8191 /\ v.sli[i].number \in 0..8191 /\ v.sli[i].pic \in 0..63
OverSLI(v)  == FALSE
EncSliEntry(e) == << e.first \div 32,
                     (e.first % 32) * 8 + e.number \div 1024,
                     (e.number \div 4) % 256,
                     (e.number % 4) * 64 + e.pic >>
DecSliEntry(b, off) ==
  [ first  |-> At(b, off) * 32 + At(b, off + 1) \div 8,
    number |-> (At(b, off + 1) % 8) * 1024 + At(b, off + 2) * 4 + At(b, off + 3) \div 64,
    pic    |-> At(b, off + 3) % 64 ]
EncSLI(D, v) == FbHead(SliPT(D), 2, SizeSLI(v), v) \o FlatFixed(EncSliEntry, v.sli, 4)
DecSLI(D, b) ==
  IF ~IsFb(b, SliPT(D), 2) THEN NA
  ELSE IF Len(b) < 12 THEN Rej
  ELSE IF Len(b) < 16 THEN NA
  ELSE Ok([ k |-> "SLI", sender |-> Sl(b, 4, 4), media |-> Sl(b, 8, 4),
            sli |-> [i \in 1..((Len(b) - 12) \div 4) |-> DecSliEntry(b, 8 + 4 * i)] ])
DestSLI(v)  == << v.media >>

---------------------------------------------------------------------------
\* FIR 206/4: entries SSRC(32) seq(8) reserved(24); reserved zero on send,
\* ignored on receipt; at least one entry
SizeFIR(v)  == 12 + 8 * Len(v.fir)
WFFIR(v)    == Len(v.fir) >= 1 /\ SizeFIR(v) <= 262144 /\ \A i \in 1..Len(v.fir) : v.fir[i].seq \in Byte
OverFIR(v)  == FALSE
EncFirEntry(e) == e.ssrc \o << e.seq, 0, 0, 0 >>
EncFIR(v)   == FbHead(206, 4, SizeFIR(v), v) \o FlatFixed(EncFirEntry, v.fir, 8)
DecFIR(b)   ==
  IF ~IsFb(b, 206, 4) THEN NA
  ELSE IF Len(b) < 12 THEN Rej                  \* shorter than the two SSRCs
  ELSE IF Len(b) < 20 \/ (Len(b) - 12) % 8 # 0 THEN NA
  ELSE Ok([ k |-> "FIR", sender |-> Sl(b, 4, 4), media |-> Sl(b, 8, 4),
            fir |-> [i \in 1..((Len(b) - 12) \div 8) |-> [ssrc |-> Sl(b, 4 + 8 * i, 4), seq |-> At(b, 8 + 8 * i)]] ])
DestFIR(v)  == [i \in 1..Len(v.fir) |-> v.fir[i].ssrc]

---------------------------------------------------------------------------
\* REMB 206/15: 12 "REMB", 16 num SSRC, 17 exp(6) mantissa(18), 20+4i SSRCs.
\* A bitrate is a float32 given as [s, e, f] (sign, biased exponent, fraction).
\* All arithmetic here is exact integer arithmetic.
REMBId == << 82, 69, 77, 66 >>

\* position of the most significant set bit of m > 0 (0-based)
RECURSIVE Msb(_)
Msb(m) == IF m < 2 THEN 0 ELSE 1 + Msb(m \div 2)

\* the float32 equal to m * 2^ex exactly, m < 2^18 (24 significant bits suffice)
\* Deviation REMB_MANTISSA0: mantissa 0 decodes as 2^(ex+23)
RembFloat(D, ex, m) ==
  IF m = 0 THEN (IF "REMB_MANTISSA0" \in D THEN [s |-> 0, e |-> ex + 150, f |-> 0] ELSE [s |-> 0, e |-> 0, f |-> 0])
  ELSE LET k == Msb(m) IN [s |-> 0, e |-> 127 + k + ex, f |-> (m - 2 ^ k) * 2 ^ (23 - k)]

IsNaN(x)     == x.e = 255 /\ x.f # 0
IsNegative(x) == x.s = 1 /\ ~(x.e = 0 /\ x.f = 0) /\ ~IsNaN(x)
FiniteNonNeg(x) == (x.s = 0 /\ x.e < 255) \/ (x.s = 1 /\ x.e = 0 /\ x.f = 0)   \* -0.0 is not negative

\* [ex, m]: the largest m * 2^ex <= x with m < 2^18 and minimal ex,
\* saturating at 0x3FFFF * 2^63.  x finite, non-negative.
RembPair(x) ==
  IF x.e = 0 THEN [ex |-> 0, m |-> 0]                         \* zero and subnormals are below 1
  ELSE LET M == 8388608 + x.f  sh == x.e - 150 IN            \* x = M * 2^sh, 2^23 <= M < 2^24
       IF sh >= -5 THEN                                       \* x >= 2^18: keep the top 18 bits
            (IF sh + 6 > 63 THEN [ex |-> 63, m |-> 262143] ELSE [ex |-> sh + 6, m |-> M \div 64])
       ELSE IF sh < -24 THEN [ex |-> 0, m |-> 0]
       ELSE [ex |-> 0, m |-> M \div (2 ^ (0 - sh))]

NormBitrate(D, x) == LET p == RembPair(x) IN RembFloat(D, p.ex, p.m)
NormREMB(D, v)    == [v EXCEPT !.br = NormBitrate(D, v.br)]
SizeREMB(v) == 20 + 4 * Len(v.ssrcs)
WFREMB(v)   == Len(v.ssrcs) <= 255 /\ FiniteNonNeg(v.br)
OverREMB(v) == Len(v.ssrcs) > 255 \/ IsNegative(v.br)
EncREMB(v)  == LET p == RembPair(v.br) IN
  EncHdr(FALSE, 15, 206, SizeREMB(v) \div 4 - 1) \o v.sender \o << 0, 0, 0, 0 >> \o REMBId
  \o << Len(v.ssrcs), p.ex * 4 + p.m \div 65536, (p.m \div 256) % 256, p.m % 256 >>
  \o FlatSeq(v.ssrcs)
DecREMB(D, b) ==
  IF ~IsFb(b, 206, 15) THEN NA
  ELSE IF Len(b) < 20 THEN Rej
  ELSE IF Sl(b, 8, 4) # << 0, 0, 0, 0 >> \/ Sl(b, 12, 4) # REMBId THEN NA
  ELSE IF Len(b) # 20 + 4 * At(b, 16) THEN NA
  ELSE Ok([ k |-> "REMB", sender |-> Sl(b, 4, 4),
            br |-> RembFloat(D, At(b, 17) \div 4, (At(b, 17) % 4) * 65536 + At(b, 18) * 256 + At(b, 19)),
            ssrcs |-> [i \in 1..At(b, 16) |-> Sl(b, 16 + 4 * i, 4)] ])
DestREMB(v) == v.ssrcs
=============================================================================
