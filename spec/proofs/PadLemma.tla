------------------------------ MODULE PadLemma ------------------------------
(* Unbounded arithmetic facts behind every size computation of the          *)
(* specification (Bytes.tla PadLen, the "words minus one" length field).     *)
EXTENDS Integers, TLAPS

PadLen(n) == (4 - (n % 4)) % 4

THEOREM PadRange == \A n \in Nat : PadLen(n) \in 0..3
  BY DEF PadLen

THEOREM PadAligns == \A n \in Nat : (n + PadLen(n)) % 4 = 0
<1> TAKE n \in Nat
<1>0. n % 4 \in 0..3 BY Z3
<1>1. CASE n % 4 = 0 BY <1>1, Z3 DEF PadLen
<1>2. CASE n % 4 = 1 BY <1>2, Z3 DEF PadLen
<1>3. CASE n % 4 = 2 BY <1>3, Z3 DEF PadLen
<1>4. CASE n % 4 = 3 BY <1>4, Z3 DEF PadLen
<1> QED BY <1>0, <1>1, <1>2, <1>3, <1>4

THEOREM PadMinimal == \A n \in Nat : n % 4 = 0 => PadLen(n) = 0
  BY DEF PadLen

THEOREM WordsMinusOne == \A n \in Nat : n % 4 = 0 /\ n >= 4 => 4 * ((n \div 4 - 1) + 1) = n
  OBVIOUS
=============================================================================
