SPECIFICATION McSpec
CONSTANTS
  H = {1, 2, 3}
  D0 = {}
  Mode = "loose"
  KindsUnderTest = {"SR", "RR", "SDES", "BYE", "APP", "NACK", "RRR", "TWCC", "CCFB", "PLI", "SLI", "FIR", "REMB", "XR", "RAW"}
  FaultDepth = 1
  MaxFrames = 2
  MaxCompound = 3
  MaxHist = 3
  AllPTs = FALSE
INVARIANTS TypeOK NoTrunc
CHECK_DEADLOCK FALSE
