----------------------------- MODULE NackDefs ------------------------------
(* RFC 4585 6.2.1 generic NACK helpers (C12).                               *)
(* Declarative part: the set of sequence numbers a list of (PID, BLP) pairs *)
(* covers, and the order PacketList / Range visit them in.                  *)
(* Machine part: NackPairsFromSequenceNumbers as the loop it is (uint16     *)
(* modular gap, bit index gap-1) and Range as a bit-by-bit walk with an     *)
(* early stop; TLC checks the loop invariant and that the machines refine   *)
(* the declarative definitions.                                              *)
EXTENDS Integers, Sequences, FiniteSets, TLC

M16(x)      == ((x % 65536) + 65536) % 65536
Bit(x, i)   == (x \div (2 ^ i)) % 2
PairSet(p)  == {p.pid} \cup { M16(p.pid + i + 1) : i \in { j \in 0..15 : Bit(p.blp, j) = 1 } }
NackCovered(ps) == UNION { PairSet(ps[i]) : i \in 1..Len(ps) }
SeqSet(s)   == { s[i] : i \in 1..Len(s) }
\* PID first, then PID+i+1 for each set bit i in ascending i
RECURSIVE BitsFrom(_, _, _)
BitsFrom(p, i, acc) == IF i > 15 THEN acc
                       ELSE BitsFrom(p, i + 1, IF Bit(p.blp, i) = 1 THEN Append(acc, M16(p.pid + i + 1)) ELSE acc)
PacketList(p) == BitsFrom(p, 0, << p.pid >>)
\* what Range visits when the callback returns false on its (stop+1)-th call
RangePrefix(p, stop) == SubSeq(PacketList(p), 1, IF stop + 1 < Len(PacketList(p)) THEN stop + 1 ELSE Len(PacketList(p)))

\* ---- the builder as a function (used by the trace specification) ----
RECURSIVE BuildFrom(_, _, _, _)
BuildFrom(input, i, pairs, cur) ==
  IF i > Len(input) THEN Append(pairs, cur)
  ELSE LET m == input[i]  gap == M16(m - cur.pid) IN
       IF gap > 16 THEN BuildFrom(input, i + 1, Append(pairs, cur), [pid |-> m, blp |-> 0])
       ELSE IF gap = 0 \/ Bit(cur.blp, gap - 1) = 1 THEN BuildFrom(input, i + 1, pairs, cur)
       ELSE BuildFrom(input, i + 1, pairs, [cur EXCEPT !.blp = cur.blp + 2 ^ (gap - 1)])
RefPairs(input) == IF input = << >> THEN << >> ELSE BuildFrom(input, 2, << >>, [pid |-> input[1], blp |-> 0])

\* ---- clauses for recorded calls ----
NackPairsTags(input, out) ==
  (IF NackCovered(out) # SeqSet(input) THEN {"C12:cover"} ELSE {})
  \cup (IF \E i \in 1..Len(out) : out[i].pid \notin 0..65535 \/ out[i].blp \notin 0..65535 THEN {"C12:cover"} ELSE {})
PacketListsTags(id, bms, out) ==
  IF Len(out) # Len(bms) \/ \E i \in 1..Len(bms) : out[i] # PacketList([pid |-> id, blp |-> bms[i]]) THEN {"C12:packetlist"} ELSE {}
\* out[k+1] = the numbers visited when the callback stops at call k (k = 0..17)
RangesTags(pid, blp, out) ==
  IF Len(out) # 18 \/ \E k \in 0..17 : out[k + 1] # RangePrefix([pid |-> pid, blp |-> blp], k) THEN {"C12:range"} ELSE {}
=============================================================================
