-------------------------------- MODULE Units --------------------------------
(* Fixed-width wire units over their whole domain (C16): TWCC run-length    *)
(* and status-vector chunks, receive deltas, RFC 8888 metric blocks, XR RLE *)
(* chunk accessors, the common header.  Each table row is 256 consecutive   *)
(* wire words; TLC checks on every row that decode-then-encode is the       *)
(* identity on canonical words and encode-then-decode the identity on       *)
(* values, and emits the row for replay through the library's public unit   *)
(* codecs.                                                                    *)
EXTENDS Judge, Json

\* canonical form of a 16-bit word for a unit (what re-encoding must give)
Canon(u, w) ==
  CASE u = "rl" -> w % 32768                       \* the T bit is 0 in a run-length chunk
    [] u = "sv" -> 32768 + (w % 32768)             \* and 1 in a status-vector chunk
    [] u = "mb" -> IF w >= 32768 THEN w ELSE 0     \* not received: the other 15 bits are sent as zero
    [] OTHER -> w
UnitBytes(u, w) == IF u = "delta1" THEN << w % 256 >> ELSE BE16(w)
ValOf(r) == r.v
DecU(u, w) ==
  CASE u = "rl" -> ValOf(DecRunLengthUnit(BE16(w)))
    [] u = "sv" -> ValOf(DecStatusVectorUnit(BE16(w)))
    [] u = "delta1" -> ValOf(DecDeltaUnit(<< w % 256 >>))
    [] u = "delta2" -> ValOf(DecDeltaUnit(BE16(w)))
    [] u = "mb" -> DecMBWord(w)
    [] u = "hdrlen" -> ValOf(DecHdr(<< 129, 200 >> \o BE16(w)))
    [] u = "hdr01" -> ValOf(DecHdr(<< 128 + ((w \div 256) % 64), w % 256, 1, 2 >>))     \* octet 0 (P, count) x packet type
EncU(u, x) ==
  CASE u = "rl" -> BE16(x.sym * 8192 + x.run) [] u = "sv" -> EncChunkT(x)
    [] u \in {"delta1", "delta2"} -> EncDelta(x) [] u = "mb" -> EncMB(x)
    [] u \in {"hdrlen", "hdr01"} -> EncHdrRec(x)
\* the wire word a table entry stands for
WordBytes(u, w) ==
  CASE u = "hdrlen" -> << 129, 200 >> \o BE16(w) [] u = "hdr01" -> << 128 + ((w \div 256) % 64), w % 256, 1, 2 >>
    [] OTHER -> UnitBytes(u, Canon(u, w))

\* clauses for a recorded table row: out[i] = [ok, v, back] for word start+i-1
UnitRowTags(u, start, out) ==
  IF Len(out) # 256 THEN {"C16:table_row"}
  ELSE IF \E i \in 1..256 : LET w == start + i - 1 IN
            \/ ~out[i].ok
            \/ out[i].v # DecU(u, w)
            \/ out[i].back # WordBytes(u, w)
       THEN {"C16:unit_table"} ELSE {}
\* XR RLE chunk accessors: out[i] = [t, rtok, rt, val]
RleRowTags(start, out) ==
  IF Len(out) # 256 THEN {"C16:table_row"}
  ELSE IF \E i \in 1..256 : LET c == start + i - 1  r == RleRunType(c) IN
            \/ out[i].t # RleType(c) \/ out[i].val # RleValue(c)
            \/ out[i].rtok # r.ok \/ (r.ok /\ out[i].rt # r.v)
       THEN {"C16:rle_accessors"} ELSE {}
=============================================================================
