------------------------------ MODULE Datagram ------------------------------
(* rtcp.Unmarshal as the loop it is (C06): a cursor walks the datagram,      *)
(* each iteration reads a header, cuts a frame of (length+1)*4 octets,       *)
(* hands exactly that frame to the decoder registered for its (PT, FMT) and *)
(* appends the result; the first error aborts with no packets; an empty     *)
(* datagram is an error.  TLC checks the loop invariants (the cursor only    *)
(* moves forward and stays inside the datagram, one packet per consumed      *)
(* frame, frames are contiguous), all-or-nothing as an action property,      *)
(* termination, and that the machine computes the function DecDatagram of    *)
(* Wire.tla, on every sequence of up to MaxFrames pieces of the frame set.   *)
EXTENDS Domain

CONSTANTS MaxFrames

VARIABLES input,     \* the datagram
          cur,       \* cursor: octets consumed so far
          out,       \* packets decoded so far
          cuts,      \* offsets at which frames were cut (for the contiguity invariant)
          status     \* "pick" | "run" | "ok" | "err"
dvars == << input, cur, out, cuts, status >>

FrameSet == ValidFrames \cup MalformedFrames \cup TailJunk
FramedSet == { f \in FrameSet : Len(f) >= 4 /\ Len(f) = 4 * (HLen(f) + 1) }
Inputs == { FlatSeq(s) : s \in UNION { { t \in [1..n -> FrameSet] : \A i \in 1..(n - 1) : t[i] \in FramedSet } : n \in 0..MaxFrames } }

DInit == status = "pick" /\ input = << >> /\ cur = 0 /\ out = << >> /\ cuts = << >>
Pick == /\ status = "pick" /\ \E b \in Inputs : input' = b
        /\ status' = "run" /\ cur' = 0 /\ out' = << >> /\ cuts' = << >>
\* one iteration of the loop in Unmarshal / unmarshal
Step ==
  /\ status = "run" /\ UNCHANGED input
  /\ LET rest == From(input, cur) IN
     IF rest = << >>
     THEN /\ status' = IF out = << >> THEN "err" ELSE "ok"          \* nothing decoded at all is an error
          /\ UNCHANGED << cur, out, cuts >>
     ELSE IF Len(rest) < 4 \/ HVer(rest) # 2 \/ 4 * (HLen(rest) + 1) > Len(rest)
     THEN status' = "err" /\ out' = << >> /\ UNCHANGED << cur, cuts >>   \* bad header or truncated tail
     ELSE LET n == 4 * (HLen(rest) + 1)
              r == DecFrame({}, Take(rest, n))                         \* the decoder sees its frame only
          IN  IF r.st = "ok"
              THEN /\ out' = Append(out, r.v) /\ cur' = cur + n /\ cuts' = Append(cuts, cur) /\ status' = "run"
              ELSE status' = "err" /\ out' = << >> /\ UNCHANGED << cur, cuts >>
DNext == Pick \/ Step
DSpec == DInit /\ [][DNext]_dvars

CursorInside == cur <= Len(input) /\ cur % 4 = 0
OnePerFrame  == status \in {"run", "ok"} => Len(out) = Len(cuts)
\* frames are contiguous: each cut is where the previous frame ended
Contiguous == \A i \in 1..Len(cuts) :
  cuts[i] = (IF i = 1 THEN 0 ELSE cuts[i - 1] + 4 * (HLen(From(input, cuts[i - 1])) + 1))
\* all-or-nothing: an error leaves no packets, and nothing is decoded after an error
AllOrNothing == status = "err" => out = << >>
Final == [][(status \in {"ok", "err"}) => (UNCHANGED dvars)]_dvars
\* the cursor strictly advances while running (termination: at most Len(input)/4 iterations)
Progress == [][status = "run" /\ status' = "run" => cur' > cur]_dvars
\* locality: packet i was decoded from frame i alone
Local == status = "ok" => \A i \in 1..Len(out) :
  out[i] = DecFrame({}, Sl(input, cuts[i], 4 * (HLen(From(input, cuts[i])) + 1))).v
\* the machine computes the function of Wire.tla (the reference decoder refuses what is undefined)
Refines == status \in {"ok", "err"} =>
  LET r == DecDatagram({}, input) IN
  IF r.st = "ok" THEN status = "ok" /\ out = r.v ELSE status = "err"
=============================================================================
