SPECIFICATION McSpec
CONSTANTS
  H = {1, 2, 3}
  D0 = {}
  Mode = "dgram"
  KindsUnderTest = {"SR", "RR", "SDES", "BYE", "APP", "NACK", "RRR", "TWCC", "CCFB", "PLI", "SLI", "FIR", "REMB", "XR", "RAW"}
  FaultDepth = 1
  MaxFrames = 3
  MaxCompound = 3
  MaxHist = 3
  AllPTs = FALSE
INVARIANTS TypeOK Compose
CHECK_DEADLOCK FALSE
