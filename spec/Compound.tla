------------------------------ MODULE Compound ------------------------------
(* RFC 3550 6.1 compound packet rules as the library exposes them (C11):    *)
(* declarative grammar Valid, CNAME lookup, and the Validate automaton as a *)
(* step machine (ValidateRun) whose result TLC compares with the grammar.   *)
EXTENDS Wire

HasCNAME(v) == v.k = "SDES" /\ \E i \in 1..Len(v.chunks) :
                 \E j \in 1..Len(v.chunks[i].items) : v.chunks[i].items[j].t = 1

\* first packet SR or RR; the first later packet that is not an RR is an
\* SDES containing a CNAME item
Valid(ps) ==
  /\ Len(ps) >= 1
  /\ ps[1].k \in {"SR", "RR"}
  /\ \E n \in 2..Len(ps) : HasCNAME(ps[n]) /\ \A m \in 2..(n - 1) : ps[m].k = "RR"

\* text of the first CNAME item of an SDES value
FirstCNAMEOf(v) ==
  LET pos == { <<i, j>> \in (1..Len(v.chunks)) \X (1..255) :
                 j <= Len(v.chunks[i].items) /\ v.chunks[i].items[j].t = 1 }
      i0  == CHOOSE i \in {p[1] : p \in pos} : \A p \in pos : i <= p[1]
      j0  == CHOOSE j \in {p[2] : p \in {q \in pos : q[1] = i0}} : \A p \in {q \in pos : q[1] = i0} : j <= p[2]
  IN  v.chunks[i0].items[j0].text
\* text of the first CNAME item among the members after the first
CNAMEOf(ps) ==
  LET n == CHOOSE n \in 2..Len(ps) : HasCNAME(ps[n]) /\ \A m \in 2..(n - 1) : ~HasCNAME(ps[m])
  IN  FirstCNAMEOf(ps[n])

\* ---- the automaton, one step per member, shaped like Validate's loop ----
\* state: [i |-> next index, st |-> "first" | "scan" | "ok" | "err"]
VInit == [i |-> 1, st |-> "first"]
VStep(ps, s) ==
  IF s.st = "first" THEN
       (IF Len(ps) = 0 THEN [i |-> 1, st |-> "err"]
        ELSE IF ps[1].k \in {"SR", "RR"} THEN [i |-> 2, st |-> "scan"] ELSE [i |-> 1, st |-> "err"])
  ELSE IF s.st = "scan" THEN
       (IF s.i > Len(ps) THEN [i |-> s.i, st |-> "err"]                 \* ran out: missing CNAME
        ELSE IF ps[s.i].k = "RR" THEN [i |-> s.i + 1, st |-> "scan"]
        ELSE IF ps[s.i].k = "SDES" THEN [i |-> s.i, st |-> IF HasCNAME(ps[s.i]) THEN "ok" ELSE "err"]
        ELSE [i |-> s.i, st |-> "err"])                                 \* packet before CNAME
  ELSE s
RECURSIVE VRun(_, _)
VRun(ps, s) == IF s.st \in {"ok", "err"} THEN s.st = "ok" ELSE VRun(ps, VStep(ps, s))
ValidateRun(ps) == VRun(ps, VInit)
=============================================================================
