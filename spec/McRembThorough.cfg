SPECIFICATION RSpec
CONSTANTS
  ExpSet = {0, 1, 31, 62, 63}
  MantSet <- StructuredMants
  FloatSet <- FloatDomR
  TableExps = {0, 1, 31, 62, 63}
  EncTables = {"int", "top18"}
  SparseExps = {2, 3, 4, 5, 6, 7, 8, 9, 10, 11, 12, 13, 14, 15, 16, 17, 18, 19, 20, 21, 22, 23, 24, 25, 26, 27, 28, 29, 30, 32, 33, 34, 35, 36, 37, 38, 39, 40, 41, 42, 43, 44, 45, 46, 47, 48, 49, 50, 51, 52, 53, 54, 55, 56, 57, 58, 59, 60, 61}
INVARIANTS EncRowOK EncLemmas DecValuePreserved DecTerminates DecClosedForm EncValuePreserved EncClosedForm ExactWhenRepresentable Monotone RowOK
CHECK_DEADLOCK FALSE
