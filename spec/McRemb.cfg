SPECIFICATION RSpec
CONSTANTS
  ExpSet = {0, 1, 31, 62, 63}
  MantSet <- StructuredMants
  FloatSet <- FloatDomR
  TableExps = {0}
  EncTables = {"int"}
  SparseExps = {1, 2, 31, 32, 62, 63}
INVARIANTS EncRowOK EncLemmas DecValuePreserved DecTerminates DecClosedForm EncValuePreserved EncClosedForm ExactWhenRepresentable Monotone RowOK
CHECK_DEADLOCK FALSE
