------------------------------ MODULE RembAlg ------------------------------
(* REMB bitrate coding (C14) as the two loops of the library, on exact      *)
(* integers: the decoder's left-normalisation of the 18-bit mantissa into   *)
(* IEEE-754 single precision, and the encoder's divide-by-two loop.  TLC    *)
(* checks the loop invariants (the represented value never changes), that   *)
(* the loops compute the closed forms RembFloat / RembPair of Fb.tla, and   *)
(* the arithmetic lemmas of the property: exactness, rounding down by less  *)
(* than one unit of the 18-bit mantissa, monotonicity, saturation, scaling  *)
(* in the exponent.                                                          *)
EXTENDS Fb, Json

CONSTANTS ExpSet,        \* exponents whose decode loop is stepped state by state
          MantSet,       \* mantissas for those
          FloatSet,      \* float32 inputs (as [s, e, f]) whose encode loop is stepped
          TableExps,     \* exponents with a complete 2^18 mantissa table (rows of 256)
          SparseExps,    \* exponents with the structured mantissa rows only
          EncTables      \* subset of {"int", "top18"}: complete encoder tables to check and emit

\* ---- the loops as recursive operators (for table rows) --------------------
\* decoder: exp8 = wire exponent + 150; shift left until bit 23 is set
RECURSIVE DecLoop(_, _)
DecLoop(exp8, mant) == IF mant \div 8388608 >= 1 THEN [s |-> 0, e |-> exp8, f |-> mant % 8388608]
                       ELSE DecLoop(exp8 - 1, mant * 2)
DecByLoop(ex, m) == IF m = 0 THEN [s |-> 0, e |-> 0, f |-> 0] ELSE DecLoop(ex + 150, m)

\* exact comparison of m1 * 2^e1 <= m2 * 2^e2 without overflow (m < 2^24)
LeqScaled(m1, e1, m2, e2) ==
  IF e1 >= e2 THEN LET d == e1 - e2 IN (IF d >= 31 THEN m1 = 0 ELSE m1 <= m2 \div (2 ^ d))
  ELSE LET k == e2 - e1 IN
       IF k >= 31 THEN (m1 = 0 \/ m2 >= 1)
       ELSE (m1 \div (2 ^ k)) + (IF m1 % (2 ^ k) = 0 THEN 0 ELSE 1) <= m2
\* a finite non-negative float as (M, sh): value = M * 2^sh
FM(x)  == IF x.e = 0 THEN x.f ELSE 8388608 + x.f
FSh(x) == IF x.e = 0 THEN -149 ELSE x.e - 150
FloatLeq(x, y) == LeqScaled(FM(x), FSh(x), FM(y), FSh(y))
PairLeqFloat(p, x) == LeqScaled(p.m, p.ex, FM(x), FSh(x))
PairLeq(p, q) == LeqScaled(p.m, p.ex, q.m, q.ex)

\* float inputs around every boundary of the coding: below 1, mantissa widths,
\* the 2^18 normalisation point, mantissa carries, the saturation point +- 1 ulp
FloatDomR ==
  { [s |-> 0, e |-> e, f |-> f] :
      e \in {0, 1, 126, 127, 128, 143, 144, 145, 146, 150, 151, 190, 206, 207, 208, 254},
      f \in {0, 1, 63, 64, 4194304, 8388544, 8388607, 8388480} }

---------------------------------------------------------------------------
VARIABLES phase,            \* "pick" | "dec" | "decdone" | "enc" | "encdone" | "table"
          e0, m0,           \* wire pair being decoded
          exp8, mant,       \* decoder loop state
          x,                \* float being encoded
          M, sh, ex,        \* encoder loop state: bitrate = M * 2^sh, exponent counter
          row               \* table row under check
rvars == << phase, e0, m0, exp8, mant, x, M, sh, ex, row >>

Zero == [s |-> 0, e |-> 0, f |-> 0]
SetToSeqF(S) == LET RECURSIVE go(_) go(T) == IF T = {} THEN << >> ELSE LET y == CHOOSE y \in T : TRUE IN << y >> \o go(T \ {y}) IN go(S)
RInit == /\ phase = "pick" /\ e0 = 0 /\ m0 = 0 /\ exp8 = 0 /\ mant = 0 /\ x = Zero /\ M = 0 /\ sh = 0 /\ ex = 0
         /\ row = [exp |-> 0, c |-> 0]
Emit(rec) == PrintT(<< "VERIF_BEH", ToJson(rec) >>)

PickDec == /\ phase = "pick" /\ \E e \in ExpSet, m \in MantSet : e0' = e /\ m0' = m /\ exp8' = e + 150 /\ mant' = m
           /\ phase' = "dec" /\ UNCHANGED << x, M, sh, ex, row >>
DecStep == /\ phase = "dec"
           /\ IF mant = 0 \/ mant \div 8388608 >= 1 THEN phase' = "decdone" /\ UNCHANGED << exp8, mant >>
              ELSE exp8' = exp8 - 1 /\ mant' = mant * 2 /\ phase' = "dec"
           /\ UNCHANGED << e0, m0, x, M, sh, ex, row >>

\* encoder: clamp to 0x3FFFF * 2^63, refuse negatives, halve until below 2^18
Clamp(v) == IF LeqScaled(262143, 63, FM(v), FSh(v)) THEN [M |-> 16777152, sh |-> 57] ELSE [M |-> FM(v), sh |-> FSh(v)]
PickEnc == /\ phase = "pick" /\ \E v \in FloatSet : x' = v /\ M' = Clamp(v).M /\ sh' = Clamp(v).sh
           /\ ex' = 0 /\ phase' = "enc" /\ UNCHANGED << e0, m0, exp8, mant, row >>
EncStep == /\ phase = "enc"
           /\ IF LeqScaled(1, 18, M, sh) THEN sh' = sh - 1 /\ ex' = ex + 1 /\ phase' = "enc"      \* bitrate >= 2^18: halve
              ELSE phase' = "encdone" /\ UNCHANGED << sh, ex >>
           /\ UNCHANGED << e0, m0, exp8, mant, x, M, row >>
\* floor(M * 2^sh) for the final state (sh <= -6 or the value is below 2^18)
FloorScaled(mm, s) == IF s >= 0 THEN mm * (2 ^ s) ELSE IF s < -30 THEN 0 ELSE mm \div (2 ^ (0 - s))
EncResult == [ex |-> ex, m |-> FloorScaled(M, sh)]

StructuredMants == { 2 ^ i : i \in 0..17 } \cup { 2 ^ i - 1 : i \in 1..18 } \cup { 2 ^ 17 + 2 ^ i : i \in 0..16 } \cup {0}
\* rows of 256 mantissas that contain a structured value
StructuredRows == { m \div 256 : m \in StructuredMants }
TableStep == /\ phase = "pick"
             /\ \E e \in TableExps \cup SparseExps : \E c \in (IF e \in TableExps THEN 0..1023 ELSE StructuredRows) :
                  /\ row' = [exp |-> e, c |-> c]
                  /\ Emit([script |-> "rembdec", exp |-> e, ms |-> [i \in 1..256 |-> 256 * c + i - 1]])
             /\ phase' = "table" /\ UNCHANGED << e0, m0, exp8, mant, x, M, sh, ex >>
EncEmit == /\ phase = "pick" /\ phase' = "encemit" /\ UNCHANGED << e0, m0, exp8, mant, x, M, sh, ex, row >>
           /\ Emit([script |-> "rembenc", brs |-> SetToSeqF(FloatSet)])

\* complete encoder tables: every integer below 2^18 (as a float), and every 18-bit
\* leading part at one exponent (x = top * 2^6 * 2^0 with exponent field 150); the three
\* lemmas below extend them to all non-negative finite floats (DESIGN.md 3.5)
IntToFloat(n) == IF n = 0 THEN Zero ELSE LET k == Msb(n) IN [s |-> 0, e |-> 127 + k, f |-> (n - 2 ^ k) * 2 ^ (23 - k)]
EncRowFloat(kind, w) == IF kind = "int" THEN IntToFloat(w) ELSE [s |-> 0, e |-> 150, f |-> w * 64]
EncTableStep ==
  \/ /\ phase = "pick" /\ \E kind \in EncTables, g \in 0..15 : row' = [exp |-> IF kind = "int" THEN 0 ELSE 1, c |-> g]
     /\ phase' = "encgroup" /\ UNCHANGED << e0, m0, exp8, mant, x, M, sh, ex >>
  \/ /\ phase = "encgroup"
     /\ \E c \in 0..(IF row.exp = 0 THEN 1023 ELSE 511) :
          /\ c % 16 = row.c /\ row' = [exp |-> row.exp, c |-> c]
          /\ Emit([script |-> "rembencrow", kind |-> IF row.exp = 0 THEN "int" ELSE "top18", c |-> c])
     /\ phase' = "encrow" /\ UNCHANGED << e0, m0, exp8, mant, x, M, sh, ex >>

RNext == PickDec \/ DecStep \/ PickEnc \/ EncStep \/ TableStep \/ EncEmit \/ EncTableStep
RSpec == RInit /\ [][RNext]_rvars

---------------------------------------------------------------------------
\* decoder loop invariant: the value mant * 2^(exp8-150) never changes
DecValuePreserved == phase \in {"dec", "decdone"} =>
  LeqScaled(mant, exp8 - 150, m0, e0) /\ LeqScaled(m0, e0, mant, exp8 - 150)
DecTerminates == phase = "dec" => mant < 16777216 /\ exp8 >= 127
\* the loop computes the closed form; the result is exactly m0 * 2^e0
DecClosedForm == phase = "decdone" =>
  LET r == IF mant = 0 THEN Zero ELSE [s |-> 0, e |-> exp8, f |-> mant % 8388608] IN
  /\ r = RembFloat({}, e0, m0)
  /\ LeqScaled(FM(r), FSh(r), m0, e0) /\ LeqScaled(m0, e0, FM(r), FSh(r))
\* encoder loop invariant: bitrate * 2^ex never changes; at most 64 halvings
EncValuePreserved == phase \in {"enc", "encdone"} => sh + ex = Clamp(x).sh /\ ex <= 63
\* the loop computes RembPair; the coded value does not exceed the input and
\* falls short by less than one unit of the mantissa; saturation at the top
EncClosedForm == phase = "encdone" =>
  LET p == EncResult IN
  /\ p = RembPair(x)
  /\ p.m < 262144 /\ p.ex \in 0..63
  /\ PairLeqFloat(p, x)
  /\ (LeqScaled(262143, 63, FM(x), FSh(x)) => p = [ex |-> 63, m |-> 262143])
  /\ (~LeqScaled(262143, 63, FM(x), FSh(x)) => ~LeqScaled(p.m + 1, p.ex, FM(x), FSh(x)))      \* x < (m+1) * 2^ex
  /\ (p.ex > 0 => p.m >= 131072)                                                                \* minimal exponent
\* decode(encode(x)) = x whenever x is representable (M has at most 18 significant bits)
ExactWhenRepresentable == phase = "encdone" =>
  LET p == EncResult  r == RembFloat({}, p.ex, p.m) IN
  (LeqScaled(FM(x), FSh(x), p.m, p.ex) => (r.e = x.e /\ r.f = x.f) \/ (FM(x) = 0 /\ p.m = 0))
\* monotone: a larger input never encodes to a smaller value (checked against every other input)
Monotone == phase = "encdone" =>
  \A y \in FloatSet : FloatLeq(x, y) => PairLeq(RembPair(x), RembPair(y))
\* the encoder loop as an operator, for table rows
RECURSIVE EncLoop(_, _, _)
EncLoop(mm, s, k) == IF LeqScaled(1, 18, mm, s) THEN EncLoop(mm, s - 1, k + 1) ELSE [ex |-> k, m |-> FloorScaled(mm, s)]
EncByLoop(v) == EncLoop(Clamp(v).M, Clamp(v).sh, 0)
EncRowOK == phase = "encrow" =>
  \A i \in 0..255 : LET w == 256 * row.c + i
                        v == EncRowFloat(IF row.exp = 0 THEN "int" ELSE "top18", w) IN
     /\ EncByLoop(v) = RembPair(v)
     /\ (row.exp = 0 => RembPair(v) = [ex |-> 0, m |-> w])
     /\ (row.exp = 1 => RembPair(v) = [ex |-> 6, m |-> 131072 + w])
\* lemmas that carry the two tables to every non-negative finite float (checked on FloatSet):
\* below 2^18 only the integer part matters; from 2^18 on only the leading 18 bits matter;
\* doubling the input adds one to the exponent until saturation
FloorFloat(v) == IF v.e < 127 THEN Zero ELSE IF v.e >= 150 THEN v ELSE [v EXCEPT !.f = v.f - (v.f % (2 ^ (150 - v.e)))]
EncLemmas == phase = "encdone" =>
  /\ (x.e <= 144 => RembPair(x) = RembPair(FloorFloat(x)))
  /\ (x.e >= 145 => RembPair(x) = RembPair([x EXCEPT !.f = x.f - (x.f % 64)]))
  /\ (x.e \in 145..206 => RembPair([x EXCEPT !.e = x.e + 1]) = [ex |-> RembPair(x).ex + 1, m |-> RembPair(x).m])
  /\ (x.e >= 208 => RembPair(x) = [ex |-> 63, m |-> 262143])

\* table rows: loop = closed form, and decoding scales with the exponent
RowOK == phase = "table" =>
  \A i \in 0..255 : LET m == 256 * row.c + i  r == RembFloat({}, row.exp, m)  r0 == RembFloat({}, 0, m) IN
     /\ DecByLoop(row.exp, m) = r
     /\ (m > 0 => r.e = r0.e + row.exp /\ r.f = r0.f)
=============================================================================
