-------------------------------- MODULE Hdr --------------------------------
(* RFC 3550 6.4.1 common header: V(2)=2 P(1) count(5) | PT(8) | length(16). *)
(* length = packet size in 32-bit words minus one.                           *)
EXTENDS Bytes

\* header value: [p |-> BOOLEAN, c |-> 0..31, t |-> 0..255, len |-> 0..65535]
WFHdr(h)   == h.c \in 0..31 /\ h.t \in 0..255 /\ h.len \in 0..65535
OverHdr(h) == h.c > 31
EncHdrRec(h) == << 128 + 32 * BoolBit(h.p) + h.c, h.t, h.len \div 256, h.len % 256 >>
EncHdr(p, c, t, len) == EncHdrRec([p |-> p, c |-> c, t |-> t, len |-> len])

HVer(b) == At(b, 0) \div 64
HP(b)   == (At(b, 0) \div 32) % 2 = 1
HC(b)   == At(b, 0) % 32
HPT(b)  == At(b, 1)
HLen(b) == U16At(b, 2)

\* Header unit decoder (C16): fewer than 4 octets or version /= 2 is rejected
DecHdr(b) ==
  IF Len(b) < 4 \/ HVer(b) # 2 THEN Rej
  ELSE Ok([p |-> HP(b), c |-> HC(b), t |-> HPT(b), len |-> HLen(b)])

\* b is exactly one well-framed packet: version 2 and the length field
\* agrees with the number of octets
Framed(b) == Len(b) >= 4 /\ HVer(b) = 2 /\ Len(b) = 4 * (HLen(b) + 1)

\* the framing conditions every successful Marshal must satisfy (C05)
FramedAs(b, pt, cnt) ==
  /\ Framed(b)
  /\ HPT(b) = pt
  /\ HC(b) = cnt
=============================================================================
