SPECIFICATION DSpec
CONSTANTS
  MaxFrames = 3
INVARIANTS CursorInside OnePerFrame Contiguous AllOrNothing Local Refines
PROPERTIES Final Progress
CHECK_DEADLOCK FALSE
