SPECIFICATION XSpec
CONSTANTS
  MaxBlocks = 2
INVARIANTS CursorOK BlockHeaders FixedLengths TypeSpecificBits WalkComplete Independent WholeDecodes UnknownVerbatim
CHECK_DEADLOCK FALSE
