SPECIFICATION USpec
CONSTANTS
  Tables <- FullTables
INVARIANTS DecEnc EncDec RlePartition
CHECK_DEADLOCK FALSE
