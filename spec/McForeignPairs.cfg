SPECIFICATION McSpec
CONSTANTS
  H = {1, 2, 3}
  D0 = {}
  Mode = "foreign"
  KindsUnderTest = {"PAIRS"}
  FaultDepth = 1
  MaxFrames = 2
  MaxCompound = 3
  MaxHist = 3
  AllPTs = FALSE
INVARIANTS TypeOK UniqueKind DispatchBack
CHECK_DEADLOCK FALSE
