------------------------------ MODULE Variants ------------------------------
(* Other RFC-valid encodings of the same value (C04): forms the library's   *)
(* own encoder never produces but a conforming peer may send.  Each         *)
(* operator maps a well-formed value to a set of byte strings that must     *)
(* decode to that value.  Inflated(b) raises the header count of an         *)
(* SR/RR/SDES/BYE encoding above the elements present: must be rejected.    *)
(* TWCC chunkings are in TwccAlg.tla.                                        *)
EXTENDS Wire

SetOct(b, off, x) == [b EXCEPT ![off + 1] = x]

\* REMB: mantissa shifted left by j and exponent lowered by j, or mantissa
\* shifted right by j (when divisible) and exponent raised by j: same product
RembWith(b, e2, m2) == SetOct(SetOct(SetOct(b, 17, e2 * 4 + m2 \div 65536), 18, (m2 \div 256) % 256), 19, m2 % 256)
RembVariants(v) ==
  LET b  == EncREMB(v)
      ex == At(b, 17) \div 4
      m  == (At(b, 17) % 4) * 65536 + At(b, 18) * 256 + At(b, 19)
  IN  { RembWith(b, ex - j, m * (2 ^ j)) : j \in { j \in 1..17 : j <= ex /\ m < 2 ^ (18 - j) /\ m > 0 } }
      \cup { RembWith(b, ex + j, m \div (2 ^ j)) : j \in { j \in 1..17 : ex + j <= 63 /\ m > 0 /\ m % (2 ^ j) = 0 } }

\* APP: 4 or 8 additional padding octets announced by the P bit
AppVariants(v) ==
  { LET pad == AppPad(v) + extra
        size == 12 + Len(v.data) + pad IN
    EncHdr(TRUE, v.st, 204, size \div 4 - 1) \o v.ssrc \o v.name \o v.data \o Fill(pad - 1, x) \o << pad >>
    : extra \in {4, 8}, x \in {0, 255} }

\* FIR: reserved 24 bits of every entry set
FirVariants(v) ==
  { [i \in 1..Len(EncFIR(v)) |-> IF i > 12 /\ ((i - 13) % 8) >= 5 THEN x ELSE EncFIR(v)[i]] : x \in {255, 1} }

\* BYE without sources-side change: a zero-length reason is the same as none
ByeVariants(v) ==
  IF Len(v.reason) = 0 THEN { LET n == Len(v.srcs) IN EncHdr(FALSE, n, 203, n + 1) \o FlatSeq(v.srcs) \o << 0, 0, 0, 0 >> } ELSE {}

\* CCFB: not-received metric blocks carrying stray ECN/offset bits
CcfbVariants(D, v) ==
  LET b == EncCCFB(D, v) IN
  { [i \in 1..Len(b) |->
       IF \E bi \in 1..Len(v.blocks) : \E mi \in 1..Len(v.blocks[bi].mbs) :
            /\ ~v.blocks[bi].mbs[mi].r
            /\ LET off == 8 + SeqSum([q \in 1..(bi - 1) |-> CcBlockSize(v.blocks[q])]) + 8 + 2 * (mi - 1) IN
               i = off + 1 \/ i = off + 2
       THEN (IF b[i] = 0 /\ i % 2 = 1 THEN stray \div 256 ELSE IF i % 2 = 0 THEN stray % 256 ELSE b[i])
       ELSE b[i]] : stray \in {32767, 1, 8192} }

\* XR: reserved bits set - packet header count bits, reserved type-specific
\* bits of each block kind, the VoIP reserved octet
XrBlockOffsets(v) == [i \in 1..Len(v.blocks) |-> 8 + SeqSum([q \in 1..(i - 1) |-> XrBlockSize(v.blocks[q])])]
XrVariants(v) ==
  LET b == EncXR(v)  offs == XrBlockOffsets(v) IN
  { SetOct(b, 0, 128 + c) : c \in {1, 31} } \cup
  { [i \in 1..Len(b) |->
       IF \E q \in 1..Len(v.blocks) : i = offs[q] + 2 THEN
            LET q == CHOOSE q \in 1..Len(v.blocks) : i = offs[q] + 2  bl == v.blocks[q] IN
            (CASE bl.bt \in {"lrle", "drle", "prt"} -> b[i] + 240          \* rsvd(4) set
               [] bl.bt = "ss" -> b[i] + 7                                 \* rsvd(3) set
               [] bl.bt \in {"rrt", "dlrr", "voip"} -> 255                 \* whole octet reserved
               [] OTHER -> b[i])
       ELSE IF \E q \in 1..Len(v.blocks) : v.blocks[q].bt = "voip" /\ i = offs[q] + 4 + 25 + 1 THEN 255
       ELSE b[i]] }

Variants(D, v) ==
  CASE v.k = "REMB" -> RembVariants(v) [] v.k = "APP" -> AppVariants(v) [] v.k = "FIR" -> FirVariants(v)
    [] v.k = "BYE" -> ByeVariants(v) [] v.k = "CCFB" -> CcfbVariants(D, v) [] v.k = "XR" -> XrVariants(v)
    [] OTHER -> {}

\* count-inflated encodings (C04): the header count claims more elements than are present
Inflated(v) ==
  IF v.k \notin {"SR", "RR", "SDES", "BYE"} THEN {}
  ELSE LET b == EncPacket({}, v)  c == HC(b) IN
       { SetOct(b, 0, 128 + c2) : c2 \in { x \in {c + 1, c + 2, 31} : x <= 31 /\ x > c } }
=============================================================================
