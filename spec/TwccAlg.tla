------------------------------ MODULE TwccAlg ------------------------------
(* Transport-wide CC feedback decoding as the two-pass step machine it is   *)
(* (C13): the status-chunk pass (run-length clipping to the status count,   *)
(* 14/7-symbol vector expansion, one typed delta placeholder per received   *)
(* packet) and the delta pass (1 or 2 octets per placeholder), both bounded *)
(* by the declared packet length.  Inputs are all status sequences up to a  *)
(* bound in every valid chunking (Chunkings), so TLC checks that every      *)
(* chunking of a sequence decodes to the same statuses and deltas.          *)
EXTENDS Domain, Json

CONSTANTS MaxStatus,     \* status sequences of length 0..MaxStatus over Symbols, every chunking
          Symbols,       \* e.g. {0, 1, 2}
          LongRuns       \* run lengths for the two-run sequences straddling 7 and 14 (restricted chunkings)

---------------------------------------------------------------------------
\* all valid chunkings of status sequence s (every run-length split, every
\* vector form, run-length overshoot on the last chunk)
IsRun(s, r) == \A i \in 1..r : s[i] = s[1]
MaxRun(s) == CHOOSE r \in 1..Len(s) : IsRun(s, r) /\ (r = Len(s) \/ s[r + 1] # s[1])
OneBitOK(s, n) == \A i \in 1..n : s[i] \in {0, 1}
RECURSIVE Chunkings(_)
Chunkings(s) ==
  IF s = << >> THEN { << >> }
  ELSE LET n == Len(s)
           runs == 1..MaxRun(s)
           viaRL == UNION { LET rest == SubSeq(s, r + 1, n)
                                wires == IF r = n THEN {r, r + 1, 8191} ELSE {r}   \* overshoot is clipped by the count
                            IN  { << Rl(s[1], w) >> \o c : w \in wires, c \in Chunkings(rest) } : r \in runs }
           via2 == IF n <= 7 THEN { << Sv2(s) >> }
                   ELSE { << Sv2(SubSeq(s, 1, 7)) >> \o c : c \in Chunkings(SubSeq(s, 8, n)) }
           via1 == IF n <= 14 THEN (IF OneBitOK(s, n) THEN { << Sv1(s) >> } ELSE {})
                   ELSE IF OneBitOK(s, 14) THEN { << Sv1(SubSeq(s, 1, 14)) >> \o c : c \in Chunkings(SubSeq(s, 15, n)) }
                   ELSE {}
       IN  viaRL \cup via2 \cup via1

\* for long sequences: a handful of systematic chunkings instead of all
RECURSIVE ByRL(_)
ByRL(s) == IF s = << >> THEN << >> ELSE << Rl(s[1], MaxRun(s)) >> \o ByRL(SubSeq(s, MaxRun(s) + 1, Len(s)))
RECURSIVE BySv2(_)
BySv2(s) == IF s = << >> THEN << >> ELSE IF Len(s) <= 7 THEN << Sv2(s) >> ELSE << Sv2(SubSeq(s, 1, 7)) >> \o BySv2(SubSeq(s, 8, Len(s)))
RECURSIVE BySv1(_)
BySv1(s) == IF s = << >> THEN << >> ELSE IF Len(s) <= 14 THEN << Sv1(s) >> ELSE << Sv1(SubSeq(s, 1, 14)) >> \o BySv1(SubSeq(s, 15, Len(s)))
Styles(s) ==
  { ByRL(s), BySv2(s) }
  \cup (IF OneBitOK(s, Len(s)) THEN { BySv1(s) } ELSE {})
  \cup { << Rl(s[1], MaxRun(s)) >> \o BySv2(SubSeq(s, MaxRun(s) + 1, Len(s))) }
  \cup (IF Len(s) > 7 THEN { << Sv2(SubSeq(s, 1, 7)) >> \o ByRL(SubSeq(s, 8, Len(s))) } ELSE {})
  \cup (IF Len(s) > 14 /\ OneBitOK(s, 14) THEN { << Sv1(SubSeq(s, 1, 14)) >> \o ByRL(SubSeq(s, 15, Len(s))) } ELSE {})

\* distinguishable deltas: the i-th packet's delta depends on i
DeltaFor(i, sym) == IF sym = 1 THEN Dl(1, (3 * i + 1) % 256) ELSE Dl(2, (IF i % 2 = 0 THEN 1 ELSE -1) * (300 + i))
DeltasOf(s) == LET idx == SelectSeq([i \in 1..Len(s) |-> i], LAMBDA i : s[i] \in {1, 2})
               IN  [j \in 1..Len(idx) |-> DeltaFor(idx[j], s[idx[j]])]
ValueOf(s, c) == MkTWCC(Len(s), c, DeltasOf(s), Len(s) % 2 = 1)

ShortSeqs == UNION { [1..n -> Symbols] : n \in 0..MaxStatus }
TwoRuns   == { [i \in 1..(r1 + r2) |-> IF i <= r1 THEN a ELSE b] : r1 \in LongRuns, r2 \in LongRuns, a \in Symbols, b \in Symbols }

---------------------------------------------------------------------------
VARIABLES st,        \* the status sequence being encoded
          val,       \* the TWCC value (one chunking of st)
          b,         \* its encoding
          phase,     \* "pick" | "chunks" | "deltas" | "done" | "err"
          pos,       \* octet offset of the next chunk, then of the next delta
          processed, \* packets accounted for so far
          chunks,    \* chunks decoded so far
          dts,       \* delta placeholders (types) so far
          deltas     \* deltas decoded so far
tvars == << st, val, b, phase, pos, processed, chunks, dts, deltas >>

Total == 4 * (HLen(b) + 1)
Count == U16At(b, 14)

TInit == /\ phase = "pick" /\ st = << >> /\ val = [k |-> "NONE"] /\ b = << >> /\ pos = 0 /\ processed = 0
         /\ chunks = << >> /\ dts = << >> /\ deltas = << >>

Emit(rec) == PrintT(<< "VERIF_BEH", ToJson(rec) >>)

Pick ==
  /\ phase = "pick"
  /\ \E s \in ShortSeqs \cup TwoRuns :
       \E c \in (IF s \in ShortSeqs THEN Chunkings(s) ELSE Styles(s)) :
          /\ st' = s /\ val' = ValueOf(s, c) /\ b' = EncTWCC(ValueOf(s, c))
  /\ phase' = "chunks" /\ pos' = 20 /\ processed' = 0 /\ chunks' = << >> /\ dts' = << >> /\ deltas' = << >>

\* one iteration of the status loop
ChunkStep ==
  /\ phase = "chunks"
  /\ IF processed >= Count THEN phase' = "deltas" /\ UNCHANGED << pos, processed, chunks, dts >>
     ELSE IF pos + 2 > Total THEN phase' = "err" /\ UNCHANGED << pos, processed, chunks, dts >>
     ELSE LET c == DecChunkWord(U16At(b, pos))
              room == Count - processed
              sts == ChunkStatuses(c, room)
          IN  /\ chunks' = Append(chunks, c)
              /\ dts' = dts \o DeltaTypesOf(sts)
              /\ processed' = processed + (IF c.ct = "rl" THEN Min(c.run, room) ELSE Len(c.syms))
              /\ pos' = pos + 2
              /\ phase' = "chunks"
  /\ UNCHANGED << st, val, b, deltas >>

\* one iteration of the delta loop
DeltaStep ==
  /\ phase = "deltas"
  /\ IF Len(deltas) = Len(dts) THEN phase' = "done" /\ UNCHANGED << pos, deltas >> /\ Emit([script |-> "tw", bytes |-> b])
     ELSE LET t == dts[Len(deltas) + 1]  size == IF t = 1 THEN 1 ELSE 2 IN
          IF pos + size > Total THEN phase' = "err" /\ UNCHANGED << pos, deltas >>
          ELSE /\ deltas' = Append(deltas, IF t = 1 THEN [t |-> 1, ticks |-> At(b, pos), rem |-> 0, big |-> 0]
                                           ELSE LET w == U16At(b, pos) IN [t |-> 2, ticks |-> IF w >= 32768 THEN w - 65536 ELSE w, rem |-> 0, big |-> 0])
               /\ pos' = pos + size /\ phase' = "deltas"
  /\ UNCHANGED << st, val, b, processed, chunks, dts >>

TNext == Pick \/ ChunkStep \/ DeltaStep
TSpec == TInit /\ [][TNext]_tvars

---------------------------------------------------------------------------
\* all chunks and deltas lie inside the declared length
CursorInside == phase # "pick" => pos <= Total /\ Total = Len(b)
\* one placeholder per received packet expanded so far, in order
PendingMatches == phase \in {"chunks", "deltas", "done"} =>
  dts = DeltaTypesOf(Expand(chunks, Count))
\* a vector chunk may overshoot the count by at most 13
ProcessedBound == phase # "pick" => processed <= Count + 13
\* every generated encoding is accepted
NoError == phase # "err"
\* the machine computes the function the wire module defines
MachineRefines == phase = "done" =>
  LET r == DecTWCC(b) IN r.st = "ok" /\ r.v.chunks = chunks /\ r.v.deltas = deltas
\* chunking-invariance: whatever the chunking, the decoded statuses are st
\* and the deltas are those of st, one per received packet, in order
ChunkingInvariant == phase = "done" =>
  /\ SubSeq(Expand(chunks, Count), 1, Count) = st
  /\ deltas = DeltasOf(st)
  /\ chunks = val.chunks
\* each delta has the size class its symbol announced
SizeClass == \A i \in 1..Len(deltas) : deltas[i].t = dts[i] /\ DeltaInRange(deltas[i])
\* progress: the cursor never moves backwards (with the bound above: termination)
Progress == [][pos' >= pos /\ (phase = "chunks" /\ phase' = "chunks" => pos' > pos)]_tvars
=============================================================================
