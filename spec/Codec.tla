-------------------------------- MODULE Codec --------------------------------
(* The library as a state machine (session layer).  State: packets and byte *)
(* buffers held by a caller, addressed by handles; actions: the public API  *)
(* calls, each parameterised by the result observed, enabled exactly when   *)
(* Judge.tla allows that result.  Trace.tla binds recorded executions of    *)
(* the real code to these actions; the MC configs explore them with the reference *)
(* results (RefMarshal etc.) over bounded domains and check the design-level theorems. *)
EXTENDS Judge

CONSTANTS H,        \* set of handles
          D0        \* deviations assumed present ({} = strict RFC)

VARIABLES pk,       \* handle -> packet value, list value, or None
          buf,      \* handle -> byte string
          prov,     \* handle -> the value whose Marshal produced buf[h], or None
          memo,     \* handle -> results already observed for pk[h] (for repeatability, C18)
          fromdec,  \* handles whose packet was produced by a decoder (C09 quantifies over these)
          provdec   \* handles whose buffer was marshalled from such a packet
vars == << pk, buf, prov, memo, fromdec, provdec >>

None   == [k |-> "NONE"]
NoRes  == [ok |-> FALSE, out |-> << >>, panic |-> FALSE, none |-> TRUE]
\* src: the octets the packet was decoded from, kept when they were the library's own Marshal output (for the re-marshal clause of C02)
NoMemo == [marshal |-> NoRes, size |-> -1, dest |-> << >>, hasdest |-> FALSE, str |-> << >>, hasstr |-> FALSE, src |-> << >>, hassrc |-> FALSE]

Init == /\ pk = [h \in H |-> None] /\ buf = [h \in H |-> << >>]
        /\ prov = [h \in H |-> None] /\ memo = [h \in H |-> NoMemo]
        /\ fromdec = {} /\ provdec = {}

\* ---- reference results: what the specification itself would return ----
RefMarshal(v) == IF WFAny(D0, v) THEN [ok |-> TRUE, out |-> EncAny(D0, v), panic |-> FALSE]
                 ELSE [ok |-> FALSE, out |-> << >>, panic |-> FALSE]
RefOf(r)      == IF r.st = "ok" THEN [ok |-> TRUE, out |-> r.v, panic |-> FALSE, slow |-> FALSE, alloc |-> 0]
                 ELSE [ok |-> FALSE, out |-> None, panic |-> FALSE, slow |-> FALSE, alloc |-> 0]
RefDecode(k, b)  == RefOf(DecEntry(D0, k, b))
RefDatagram(b)   == LET r == DecDatagram(D0, b) IN
                    IF r.st = "ok" THEN [ok |-> TRUE, out |-> r.v, panic |-> FALSE, slow |-> FALSE, alloc |-> 0]
                    ELSE [ok |-> FALSE, out |-> << >>, panic |-> FALSE, slow |-> FALSE, alloc |-> 0]

\* ExtendedReport.Marshal fills in its blocks' header fields (documented), which String prints
ContainsXR(v) == IF IsList(v) THEN \E i \in 1..Len(Pk(v)) : Pk(v)[i].k = "XR" ELSE v.k = "XR"

RemarshalStable(D, k, src) ==
  IF k = "CP" THEN FALSE
  ELSE LET r == IF k = "LIST" THEN DecDatagram(D, src) ELSE DecAs(D, k, src) IN
       r.st = "ok" /\ (IF k = "LIST" THEN EncList(D, r.v) ELSE EncPacket(D, r.v)) = src

\* ---- guards -------------------------------------------------------------
SameMarshal(a, b) == a.ok = b.ok /\ (a.ok => a.out = b.out)
MarshalGuard(D, h, res) ==
  MarshalTags(D, pk[h], res)
  \cup (IF "none" \notin DOMAIN memo[h].marshal /\ ~SameMarshal(memo[h].marshal, res) THEN {"C18:marshal_not_repeatable"} ELSE {})
  \cup (IF res.panic /\ h \in fromdec /\ pk[h].k = "LIST" THEN {"C09:remarshal_panic"} ELSE {})
  \* C05: a MarshalSize answer given before this Marshal (same value: the memo is cleared when the packet changes)
  \cup (IF memo[h].size >= 0 /\ res.ok /\ Len(res.out) <= 262144 /\ memo[h].size # Len(res.out)
           /\ ~(pk[h].k = "TWCC" /\ ~(pk[h].hdr.c <= 31 /\ TwccConsistent(pk[h])))
        THEN {"C05:marshalsize_vs_output"} ELSE {})
  \* C02: re-marshalling what was decoded from the library's own output of a well-formed value reproduces the octets
  \* (demanded when the model D itself re-encodes them identically: always so for the strict model)
  \cup (IF memo[h].hassrc /\ ~res.panic /\ RemarshalStable(D, pk[h].k, memo[h].src) /\ (~res.ok \/ res.out # memo[h].src)
        THEN {"C02:remarshal_differs"} ELSE {})
SizeGuard(D, h, out) ==
  SizeTags(D, pk[h], out, memo[h].marshal)
  \cup (IF memo[h].size # -1 /\ memo[h].size # out THEN {"C18:size_not_repeatable"} ELSE {})
DestGuard(D, h, out) ==
  DestTags(pk[h], out)
  \cup (IF memo[h].hasdest /\ memo[h].dest # out THEN {"C18:dest_not_repeatable"} ELSE {})
HeaderGuard(D, h, out) == HeaderTags(D, pk[h], out)
StringGuard(h, res) ==
  (IF res.panic THEN {"C17:string_panic"} ELSE {})
  \cup (IF ~res.panic /\ memo[h].hasstr /\ memo[h].str # res.out THEN {"C18:string_not_repeatable"} ELSE {})
UnmarshalGuard(D, k, b, res) ==
  DecodeTags(D, k, buf[b], res)
  \cup (IF prov[b].k = k /\ k # "CP" /\ WFAny(D, prov[b]) THEN RtOwnTags(D, prov[b], res) ELSE {})
DatagramGuard(D, b, res) ==
  DatagramTags(D, buf[b], res)
  \cup (IF prov[b].k # "NONE" /\ prov[b].k # "CP" /\ WFAny(D, prov[b]) THEN RtDatagramTags(D, prov[b], res) ELSE {})
  \cup (IF b \in provdec /\ prov[b].k = "LIST" THEN StableTags(D, prov[b], res) ELSE {})

\* the memo of a freshly decoded packet: remembers the source octets when they are the library's own
\* output of a well-formed value of the kind decoded (or of anything, for the datagram decoder)
SrcMemo(b, k) ==
  IF prov[b].k # "NONE" /\ prov[b].k # "CP" /\ (k = "LIST" \/ prov[b].k = k) /\ WFAny({}, prov[b])
  THEN [NoMemo EXCEPT !.src = buf[b], !.hassrc = TRUE] ELSE NoMemo

\* ---- actions --------------------------------------------------------------
Build(h, v) ==
  /\ pk' = [pk EXCEPT ![h] = v] /\ memo' = [memo EXCEPT ![h] = NoMemo] /\ fromdec' = fromdec \ {h}
  /\ UNCHANGED << buf, prov, provdec >>
SetBuf(h, b) ==
  /\ buf' = [buf EXCEPT ![h] = b] /\ prov' = [prov EXCEPT ![h] = None] /\ provdec' = provdec \ {h}
  /\ UNCHANGED << pk, memo, fromdec >>
Marshal(h, res) ==
  /\ pk[h].k # "NONE"
  /\ MarshalGuard(D0, h, res) = {}
  /\ buf'  = [buf EXCEPT ![h] = IF res.ok THEN res.out ELSE << >>]
  /\ prov' = [prov EXCEPT ![h] = IF res.ok THEN pk[h] ELSE None]
  /\ memo' = [memo EXCEPT ![h].marshal = res, ![h].hasstr = IF ContainsXR(pk[h]) THEN FALSE ELSE @]
  /\ provdec' = IF res.ok /\ h \in fromdec THEN provdec \cup {h} ELSE provdec \ {h}
  /\ UNCHANGED << pk, fromdec >>
SizeOf(h, out) ==
  /\ pk[h].k # "NONE" /\ SizeGuard(D0, h, out) = {}
  /\ memo' = [memo EXCEPT ![h].size = out] /\ UNCHANGED << pk, buf, prov, fromdec, provdec >>
DestOf(h, out) ==
  /\ pk[h].k # "NONE" /\ DestGuard(D0, h, out) = {}
  /\ memo' = [memo EXCEPT ![h].dest = out, ![h].hasdest = TRUE] /\ UNCHANGED << pk, buf, prov, fromdec, provdec >>
HeaderOf(h, out) ==
  /\ pk[h].k # "NONE" /\ HeaderGuard(D0, h, out) = {} /\ UNCHANGED vars
StringOf(h, res) ==
  /\ pk[h].k # "NONE" /\ StringGuard(h, res) = {}
  /\ memo' = [memo EXCEPT ![h].str = res.out, ![h].hasstr = TRUE] /\ UNCHANGED << pk, buf, prov, fromdec, provdec >>
Unmarshal(k, b, h, res) ==
  /\ UnmarshalGuard(D0, k, b, res) = {}
  /\ pk' = [pk EXCEPT ![h] = IF res.ok THEN res.out ELSE None]
  /\ memo' = [memo EXCEPT ![h] = SrcMemo(b, k)]
  /\ fromdec' = IF res.ok THEN fromdec \cup {h} ELSE fromdec \ {h}
  /\ UNCHANGED << buf, prov, provdec >>
Datagram(b, h, res) ==
  /\ DatagramGuard(D0, b, res) = {}
  /\ pk' = [pk EXCEPT ![h] = IF res.ok THEN [k |-> "LIST", pkts |-> res.out] ELSE None]
  /\ memo' = [memo EXCEPT ![h] = SrcMemo(b, "LIST")]
  /\ fromdec' = IF res.ok THEN fromdec \cup {h} ELSE fromdec \ {h}
  /\ UNCHANGED << buf, prov, provdec >>

\* ---- design-level theorems, checked by TLC on the reference machine ------
\* (stated over the state so they are invariants of every reachable state)
\* C02: whatever a buffer was marshalled from decodes back to its Norm
RoundTrip == \A h \in H : prov[h].k \notin {"NONE", "LIST", "CP"} =>
  /\ DecAs(D0, prov[h].k, buf[h]) = Ok(Norm(D0, prov[h]))
  /\ DecDatagram(D0, buf[h]) = Ok(<< Norm(D0, prov[h]) >>)
RoundTripList == \A h \in H : prov[h].k \in {"LIST", "CP"} /\ prov[h].pkts # << >> =>
  DecDatagram(D0, buf[h]) = Ok(NormAny(D0, prov[h]).pkts)
\* C05: marshalled buffers are framed and Size agrees
Framing == \A h \in H : prov[h].k \notin {"NONE", "LIST", "CP"} =>
  /\ Len(buf[h]) = Size(prov[h]) /\ Len(buf[h]) % 4 = 0 /\ Framed(buf[h])
  /\ HPT(buf[h]) = RegPT(D0, prov[h]) /\ HC(buf[h]) = RegCount(prov[h])
\* C07: the dispatch table sends every kind's encoding back to that kind
DispatchBack == \A h \in H : prov[h].k \notin {"NONE", "LIST", "CP"} =>
  Kind(D0, HPT(buf[h]), HC(buf[h])) = prov[h].k
\* C07: no buffer is a valid packet of two kinds
UniqueKind == \A h \in H : Len(buf[h]) >= 4 =>
  Cardinality({k \in PacketKinds : DecOwn(D0, k, buf[h]).st = "ok"}) <= 1
\* C08: Enc is defined exactly on the well-formed values; Over and WF exclude each other
NoTrunc == \A h \in H : pk[h].k \notin {"NONE"} => ~(WFAny(D0, pk[h]) /\ OverAny(pk[h]))
\* C09: decode-encode-decode is idempotent on the accepted set
Stable == \A h \in H : Len(buf[h]) >= 4 =>
  LET r == DecDatagram(D0, buf[h]) IN
  r.st = "ok" /\ (\A i \in 1..Len(r.v) : WF(D0, r.v[i])) =>
     DecDatagram(D0, EncList(D0, r.v)) = Ok([i \in 1..Len(r.v) |-> Norm(D0, r.v[i])])
\* every decoded value is well-formed (so it can be re-encoded)
DecodedWF == \A h \in H : Len(buf[h]) >= 4 =>
  LET r == DecDatagram(D0, buf[h]) IN r.st = "ok" => \A i \in 1..Len(r.v) : WF(D0, r.v[i])
TypeOK == \A h \in H : IsBytes(buf[h])
=============================================================================
