SPECIFICATION NSpec
CONSTANTS
  SeqVals = {0, 1, 2, 15, 16, 17, 18, 32, 33, 34, 32767, 32768, 65518, 65519, 65520, 65534, 65535}
  MaxList = 3
  RangeLists = 2
  MaxPairs = 36
  TableIds = {0, 65535}
INVARIANTS LoopInvariant CoverExact BuilderRefines CursorBound RangeIsPrefix RangeComplete Equivariant
CHECK_DEADLOCK FALSE
