-------------------------------- MODULE Wire --------------------------------
(* The packet layer as a whole: dispatch table, per-kind Enc/Dec/WF/Over/   *)
(* Size/Dest/Norm, datagram framing, named deviations.                       *)
EXTENDS Rfc3550, Fb, Twcc, Ccfb, Xr

\* Named deviations of the library from the RFCs that the repository's own
\* tests pin (so they are recorded, not repaired).  One known_findings.jsonl
\* entry per name.  D = {} is the strict RFC model.
Deviations == {"SLI_PT205", "CCFB_NUM", "CCFB_ANY_FMT", "REMB_MANTISSA0"}
\* the numbers the RFCs and the IANA registries assign to what the package names (RFC 3550 12.1 and 12.2, RFC 4585 6.2 and
\* 6.3, RFC 5104 4.3, RFC 8888 3.1 with RFC 3168 5: ECT(1) = 01, ECT(0) = 10, RFC 3611 4, the transport-wide-cc draft 3.1)
ApiConstants ==
  [ TypeSenderReport |-> 200, TypeReceiverReport |-> 201, TypeSourceDescription |-> 202, TypeGoodbye |-> 203, TypeApplicationDefined |-> 204,
    TypeTransportSpecificFeedback |-> 205, TypePayloadSpecificFeedback |-> 206, TypeExtendedReport |-> 207,
    FormatSLI |-> 2, FormatPLI |-> 1, FormatFIR |-> 4, FormatTLN |-> 1, FormatRRR |-> 5, FormatCCFB |-> 11, FormatREMB |-> 15, FormatTCC |-> 15,
    ECNNonECT |-> 0, ECNECT1 |-> 1, ECNECT0 |-> 2, ECNCE |-> 3,
    SDESEnd |-> 0, SDESCNAME |-> 1, SDESName |-> 2, SDESEmail |-> 3, SDESPhone |-> 4, SDESLocation |-> 5, SDESTool |-> 6, SDESNote |-> 7, SDESPrivate |-> 8,
    LossRLEReportBlockType |-> 1, DuplicateRLEReportBlockType |-> 2, PacketReceiptTimesReportBlockType |-> 3, ReceiverReferenceTimeReportBlockType |-> 4,
    DLRRReportBlockType |-> 5, StatisticsSummaryReportBlockType |-> 6, VoIPMetricsReportBlockType |-> 7,
    ToHMissing |-> 0, ToHIPv4 |-> 1, ToHIPv6 |-> 2,
    TypeTCCRunLengthChunk |-> 0, TypeTCCStatusVectorChunk |-> 1,
    TypeTCCPacketNotReceived |-> 0, TypeTCCPacketReceivedSmallDelta |-> 1, TypeTCCPacketReceivedLargeDelta |-> 2, TypeTCCPacketReceivedWithoutDelta |-> 3,
    TypeTCCSymbolSizeOneBit |-> 0, TypeTCCSymbolSizeTwoBit |-> 1 ]

PacketKinds == {"SR", "RR", "SDES", "BYE", "APP", "NACK", "RRR", "TWCC", "CCFB",
                "PLI", "SLI", "FIR", "REMB", "XR"}

\* (PT, FMT) -> kind; everything unregistered is a RawPacket (C07)
Kind(D, pt, fmt) ==
  CASE pt = 200 -> "SR" [] pt = 201 -> "RR" [] pt = 202 -> "SDES" [] pt = 203 -> "BYE"
    [] pt = 204 -> "APP" [] pt = 207 -> "XR"
    [] pt = 205 -> (CASE fmt = 1 -> "NACK" [] fmt = 5 -> "RRR" [] fmt = 11 -> "CCFB" [] fmt = 15 -> "TWCC"
                      [] OTHER -> "RAW")
    [] pt = 206 -> (CASE fmt = 1 -> "PLI" [] fmt = 2 -> "SLI" [] fmt = 4 -> "FIR" [] fmt = 15 -> "REMB"
                      [] OTHER -> "RAW")
    [] OTHER -> "RAW"

\* RawPacket carries any frame verbatim; what its own decoder does with a bad header is not the subject of a property
DecRAW(b) == IF Len(b) < 4 \/ HVer(b) # 2 THEN NA ELSE Ok([k |-> "RAW", bytes |-> b])

\* the kind's own decoder, given exactly the octets b
DecOwn(D, k, b) ==
  CASE k = "SR" -> DecSR(b) [] k = "RR" -> DecRR(b) [] k = "SDES" -> DecSDES(b) [] k = "BYE" -> DecBYE(b)
    [] k = "APP" -> DecAPP(b) [] k = "NACK" -> DecNACK(b) [] k = "RRR" -> DecRRR(b) [] k = "TWCC" -> DecTWCC(b)
    [] k = "CCFB" -> DecCCFB(D, b) [] k = "PLI" -> DecPLI(b) [] k = "SLI" -> DecSLI(D, b) [] k = "FIR" -> DecFIR(b)
    [] k = "REMB" -> DecREMB(D, b) [] k = "XR" -> DecXR(b) [] k = "RAW" -> DecRAW(b)

\* b is a well-formed packet of a kind other than k (C07: k's decoder must refuse it)
Foreign(D, k, b) == \E u \in PacketKinds \ {k} : DecOwn(D, u, b).st = "ok"

\* what calling kind k's decoder on b must do
DecAs(D, k, b) ==
  LET own == DecOwn(D, k, b) IN
  IF own.st # "na" \/ k = "RAW" THEN own
  ELSE IF Len(b) < 4 THEN NA
  ELSE IF k = "CCFB" /\ "CCFB_ANY_FMT" \in D /\ HPT(b) = 205 THEN NA
  ELSE IF Foreign(D, k, b) THEN Rej
  ELSE NA

EncPacket(D, v) ==
  CASE v.k = "SR" -> EncSR(v) [] v.k = "RR" -> EncRR(v) [] v.k = "SDES" -> EncSDES(v) [] v.k = "BYE" -> EncBYE(v)
    [] v.k = "APP" -> EncAPP(v) [] v.k = "NACK" -> EncNACK(v) [] v.k = "RRR" -> EncRRR(v) [] v.k = "TWCC" -> EncTWCC(v)
    [] v.k = "CCFB" -> EncCCFB(D, v) [] v.k = "PLI" -> EncPLI(v) [] v.k = "SLI" -> EncSLI(D, v) [] v.k = "FIR" -> EncFIR(v)
    [] v.k = "REMB" -> EncREMB(v) [] v.k = "XR" -> EncXR(v) [] v.k = "RAW" -> v.bytes

Size(v) ==
  CASE v.k = "SR" -> SizeSR(v) [] v.k = "RR" -> SizeRR(v) [] v.k = "SDES" -> SizeSDES(v) [] v.k = "BYE" -> SizeBYE(v)
    [] v.k = "APP" -> SizeAPP(v) [] v.k = "NACK" -> SizeNACK(v) [] v.k = "RRR" -> 12 [] v.k = "TWCC" -> SizeTWCC(v)
    [] v.k = "CCFB" -> SizeCCFB(v) [] v.k = "PLI" -> 12 [] v.k = "SLI" -> SizeSLI(v) [] v.k = "FIR" -> SizeFIR(v)
    [] v.k = "REMB" -> SizeREMB(v) [] v.k = "XR" -> SizeXR(v) [] v.k = "RAW" -> Len(v.bytes)

\* a RawPacket value is well-formed when it is a framed packet of an
\* unregistered (PT, FMT): only then is it RawPacket's to carry
WFRAW(D, v) == Framed(v.bytes) /\ Kind(D, HPT(v.bytes), HC(v.bytes)) = "RAW"

WF(D, v) ==
  CASE v.k = "SR" -> WFSR(v) [] v.k = "RR" -> WFRR(v) [] v.k = "SDES" -> WFSDES(v) [] v.k = "BYE" -> WFBYE(v)
    [] v.k = "APP" -> WFAPP(v) [] v.k = "NACK" -> WFNACK(v) [] v.k = "RRR" -> TRUE [] v.k = "TWCC" -> WFTWCC(v)
    [] v.k = "CCFB" -> WFCCFB(v) [] v.k = "PLI" -> TRUE [] v.k = "SLI" -> WFSLI(v) [] v.k = "FIR" -> WFFIR(v)
    [] v.k = "REMB" -> WFREMB(v) [] v.k = "XR" -> WFXR(v) [] v.k = "RAW" -> WFRAW(D, v)

\* exceeds a wire limit named in C08: Marshal must return an error
Over(v) ==
  CASE v.k = "SR" -> OverSR(v) [] v.k = "RR" -> OverRR(v) [] v.k = "SDES" -> OverSDES(v) [] v.k = "BYE" -> OverBYE(v)
    [] v.k = "APP" -> OverAPP(v) [] v.k = "TWCC" -> OverTWCC(v) [] v.k = "CCFB" -> OverCCFB(v)
    [] v.k = "REMB" -> OverREMB(v) [] OTHER -> FALSE

Dest(v) ==
  CASE v.k = "SR" -> DestSR(v) [] v.k = "RR" -> DestRR(v) [] v.k = "SDES" -> DestSDES(v) [] v.k = "BYE" -> DestBYE(v)
    [] v.k = "APP" -> DestAPP(v) [] v.k = "NACK" -> DestNACK(v) [] v.k = "RRR" -> DestFix(v) [] v.k = "TWCC" -> DestTWCC(v)
    [] v.k = "CCFB" -> DestCCFB(v) [] v.k = "PLI" -> DestFix(v) [] v.k = "SLI" -> DestSLI(v) [] v.k = "FIR" -> DestFIR(v)
    [] v.k = "REMB" -> DestREMB(v) [] v.k = "XR" -> DestXR(v) [] v.k = "RAW" -> << >>

\* the three documented quantisations and nothing else (C02)
Norm(D, v) ==
  CASE v.k = "RR" -> NormRR(v) [] v.k = "REMB" -> NormREMB(D, v) [] v.k = "TWCC" -> NormTWCC(v) [] OTHER -> v

\* the registered header fields of a kind's own encoding (C05)
RegPT(D, v) ==
  CASE v.k = "SR" -> 200 [] v.k = "RR" -> 201 [] v.k = "SDES" -> 202 [] v.k = "BYE" -> 203 [] v.k = "APP" -> 204
    [] v.k \in {"NACK", "RRR", "TWCC", "CCFB"} -> 205 [] v.k = "SLI" -> SliPT(D) [] v.k \in {"PLI", "FIR", "REMB"} -> 206
    [] v.k = "XR" -> 207 [] v.k = "RAW" -> HPT(v.bytes)
RegCount(v) ==
  CASE v.k \in {"SR", "RR"} -> Len(v.reports) [] v.k = "SDES" -> Len(v.chunks) [] v.k = "BYE" -> Len(v.srcs)
    [] v.k = "APP" -> v.st [] v.k = "NACK" -> 1 [] v.k = "RRR" -> 5 [] v.k = "TWCC" -> 15 [] v.k = "CCFB" -> 11
    [] v.k = "PLI" -> 1 [] v.k = "SLI" -> 2 [] v.k = "FIR" -> 4 [] v.k = "REMB" -> 15 [] v.k = "XR" -> 0
    [] v.k = "RAW" -> HC(v.bytes)

\* equality of an observed encoding with the reference one, up to the octets
\* the specifications leave open (APP padding octets other than the last)
EncEq(D, v, out) ==
  LET ref == EncPacket(D, v) IN
  /\ Len(out) = Len(ref)
  /\ IF v.k = "APP" THEN \A i \in 1..Len(ref) : i \in AppDontCare(v) \/ out[i] = ref[i]
     ELSE out = ref

EncList(D, vs) == FlatSeq([i \in 1..Len(vs) |-> EncPacket(D, vs[i])])

---------------------------------------------------------------------------
\* Datagram decoding as a function (the step machine with its invariants is
\* Datagram.tla).  Frames are cut at the length fields; an empty datagram, a
\* short or non-version-2 header, or a frame longer than what is left is an
\* error; any frame that must be rejected makes the whole datagram an error
\* (all-or-nothing, C06).
\* (the cursor is an offset: only the frames themselves are copied)
RECURSIVE SplitFrom(_, _, _)
SplitFrom(b, off, acc) ==
  IF off = Len(b) THEN [ok |-> TRUE, frames |-> acc]
  ELSE IF Len(b) - off < 4 \/ At(b, off) \div 64 # 2 \/ 4 * (U16At(b, off + 2) + 1) > Len(b) - off THEN [ok |-> FALSE, frames |-> acc]
  ELSE SplitFrom(b, off + 4 * (U16At(b, off + 2) + 1), Append(acc, Sl(b, off, 4 * (U16At(b, off + 2) + 1))))
SplitFrames(b, acc) == SplitFrom(b, 0, acc)

DecFrame(D, f) == DecAs(D, Kind(D, HPT(f), HC(f)), f)

\* the same with the split already done
DecSplit(D, sp) ==
  IF ~sp.ok \/ sp.frames = << >> THEN Rej
  ELSE LET rs == [i \in 1..Len(sp.frames) |-> DecFrame(D, sp.frames[i])] IN
       IF \E i \in 1..Len(rs) : rs[i].st = "rej" THEN Rej
       ELSE IF \E i \in 1..Len(rs) : rs[i].st = "na" THEN NA
       ELSE Ok([i \in 1..Len(rs) |-> rs[i].v])
DecDatagram(D, b) ==
  LET sp == SplitFrames(b, << >>) IN
  IF ~sp.ok \/ sp.frames = << >> THEN Rej
  ELSE LET rs == [i \in 1..Len(sp.frames) |-> DecFrame(D, sp.frames[i])] IN
       IF \E i \in 1..Len(rs) : rs[i].st = "rej" THEN Rej
       ELSE IF \E i \in 1..Len(rs) : rs[i].st = "na" THEN NA
       ELSE Ok([i \in 1..Len(rs) |-> rs[i].v])
=============================================================================
