------------------------------- MODULE Faults -------------------------------
(* Fault actions on byte buffers (DESIGN.md 6, C01/C04/C06/C09): the ways a *)
(* valid encoding is damaged in transit or crafted by an attacker.  Each    *)
(* operator returns the set of buffers the fault can produce.               *)
EXTENDS Wire

Truncations(b) == { Take(b, n) : n \in 0..(Len(b) - 1) }
SetLenField(b, L) == [b EXCEPT ![3] = L \div 256, ![4] = L % 256]
Resize(b, n) == IF n <= Len(b) THEN Take(b, n) ELSE b \o Zeros(n - Len(b))
LenBoundaries(b) ==
  LET t == Len(b) \div 4 - 1 IN
  { L \in {0, 1, 2, 3, t - 1, t, t + 1, 16383, 16384, 16385, 32767, 32768, 65535} : L >= 0 /\ L <= 65535 }
\* the length field lies about the buffer
LenLies(b) == IF Len(b) < 4 THEN {} ELSE { SetLenField(b, L) : L \in LenBoundaries(b) }
\* the length field is changed and the buffer resized to agree with it
LenResized(b) == IF Len(b) < 4 THEN {} ELSE
  { Resize(SetLenField(b, L), 4 * (L + 1)) : L \in { x \in LenBoundaries(b) : x <= 24 } }
CountChanges(b) == IF Len(b) < 1 THEN {} ELSE { [b EXCEPT ![1] = (b[1] \div 32) * 32 + c] : c \in 0..31 }
PTChanges(b) == IF Len(b) < 2 THEN {} ELSE { [b EXCEPT ![2] = pt] : pt \in {0, 199, 200, 201, 202, 203, 204, 205, 206, 207, 208, 255} }
VersionChanges(b) == IF Len(b) < 1 THEN {} ELSE { [b EXCEPT ![1] = v * 64 + (b[1] % 64)] : v \in {0, 1, 3} }
PaddingFlip(b) == IF Len(b) < 1 THEN {} ELSE { [b EXCEPT ![1] = IF (b[1] \div 32) % 2 = 1 THEN b[1] - 32 ELSE b[1] + 32] }
ByteChanges(b, upto) ==
  { [b EXCEPT ![i] = x] : i \in 1..Min(Len(b), upto),
                           x \in {0, 255} } \cup
  { [b EXCEPT ![i] = (b[i] + 128) % 256] : i \in 1..Min(Len(b), upto) } \cup
  { [b EXCEPT ![i] = IF b[i] % 2 = 0 THEN b[i] + 1 ELSE b[i] - 1] : i \in 1..Min(Len(b), upto) }
Extensions(b) == { b \o Zeros(n) : n \in 1..4 } \cup { b \o Fill(n, 255) : n \in {1, 4} }
\* surplus octets with the length field adjusted to cover them
GrownFrames(b) == IF Len(b) < 4 THEN {} ELSE
  { SetLenField(b \o Fill(4 * n, x), Len(b) \div 4 - 1 + n) : n \in {1, 2}, x \in {0, 255} }

\* the P bit set and the last octet looking like a padding count
PaddingClaims(b) == IF Len(b) < 8 THEN {} ELSE
  { [b EXCEPT ![1] = IF (b[1] \div 32) % 2 = 1 THEN b[1] ELSE b[1] + 32, ![Len(b)] = n] : n \in {0, 1, 2, 3, 4, 5, 8, 255} }

\* a short prefix whose length field claims less (or, after multiplication by 4 in 16 bits, wraps to less)
\* than is there: decoders that trust the field for "enough octets" then read fixed offsets
ShortLies(b) == IF Len(b) < 5 THEN {} ELSE
  { SetLenField(Take(b, n), L) : n \in 4..Min(Len(b) - 1, 20), L \in {0, 1, 2, 3, 16384, 16385, 32768} }

\* the same with a padding a sender would really produce: k-1 null octets and the count k, for whole words
ZeroPaddingClaims(b) == IF Len(b) < 12 THEN {} ELSE
  { [i \in 1..Len(b) |-> IF i = 1 THEN (IF (b[1] \div 32) % 2 = 1 THEN b[1] ELSE b[1] + 32)
                         ELSE IF i = Len(b) THEN k ELSE IF i > Len(b) - k THEN 0 ELSE b[i]] : k \in { x \in {4, 8} : x <= Len(b) - 4 } }

FirstOrder(b) ==
  Truncations(b) \cup LenLies(b) \cup LenResized(b) \cup CountChanges(b) \cup PTChanges(b)
  \cup VersionChanges(b) \cup PaddingFlip(b) \cup PaddingClaims(b) \cup ByteChanges(b, 48) \cup Extensions(b) \cup GrownFrames(b)
  \cup ShortLies(b) \cup ZeroPaddingClaims(b)
\* a cheaper family for second-order compositions
Light(b) == Truncations(b) \cup LenLies(b) \cup CountChanges(b) \cup PaddingFlip(b) \cup GrownFrames(b)
=============================================================================
