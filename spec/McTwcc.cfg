SPECIFICATION TSpec
CONSTANTS
  MaxStatus = 5
  Symbols = {0, 1, 2}
  LongRuns = {6, 7, 8, 13, 14, 15}
INVARIANTS CursorInside PendingMatches ProcessedBound NoError MachineRefines ChunkingInvariant SizeClass
PROPERTY Progress
CHECK_DEADLOCK FALSE
