-------------------------------- MODULE Judge --------------------------------
(* What each public call of the library may return, as relations between    *)
(* the abstract argument and the observed result.  Every operator returns   *)
(* the set of violated clauses as tags "Cnn:what"; the empty set means the  *)
(* observation is a behaviour the specification allows.  These relations    *)
(* are the guards of the actions of Codec.tla and the oracle of Trace.tla.  *)
EXTENDS Compound

\* ---- values that are lists: rtcp.Marshal([]Packet) and CompoundPacket ----
IsList(v)  == v.k \in {"LIST", "CP"}
\* the packets a list stands for on the wire: a CompoundPacket that is a member of a list given to rtcp.Marshal,
\* or of another CompoundPacket, contributes its own members in place (one level of nesting)
Pk(v) == IF IsList(v) /\ (\E i \in 1..Len(v.pkts) : v.pkts[i].k = "CP")
         THEN FlatSeq([i \in 1..Len(v.pkts) |-> IF v.pkts[i].k = "CP" THEN v.pkts[i].pkts ELSE << v.pkts[i] >>])
         ELSE v.pkts
WFAny(D, v) ==
  IF IsList(v) THEN /\ \A i \in 1..Len(Pk(v)) : ~IsList(Pk(v)[i]) /\ WF(D, Pk(v)[i])
                    /\ (v.k = "CP" => Valid(v.pkts))
                    /\ (\A i \in 1..Len(v.pkts) : v.pkts[i].k = "CP" => Valid(v.pkts[i].pkts))
  ELSE WF(D, v)
OverAny(v) ==
  IF IsList(v) THEN \E i \in 1..Len(Pk(v)) : ~IsList(Pk(v)[i]) /\ Over(Pk(v)[i])
  ELSE Over(v)
EncAny(D, v) == IF IsList(v) THEN EncList(D, Pk(v)) ELSE EncPacket(D, v)
SizeAny(v)   == IF IsList(v) THEN SeqSum([i \in 1..Len(Pk(v)) |-> Size(Pk(v)[i])]) ELSE Size(v)
EncEqAny(D, v, out) ==
  IF ~IsList(v) THEN EncEq(D, v, out)
  ELSE LET ps == Pk(v)
           RECURSIVE go(_, _)
           go(i, off) == IF i > Len(ps) THEN off = Len(out)
                         ELSE LET n == Size(ps[i]) IN
                              /\ off + n <= Len(out)
                              /\ EncEq(D, ps[i], Sl(out, off, n))
                              /\ go(i + 1, off + n)
       IN  go(1, 0)
NormAny(D, v) == IF IsList(v) THEN [v EXCEPT !.pkts = [i \in 1..Len(Pk(v)) |-> Norm(D, Pk(v)[i])]] ELSE Norm(D, v)

\* values whose own fields are all inside the record shapes the wire modules
\* read (the harness only builds such values)
HdrGiven(v) == v.k \in {"TWCC", "RAW"}

---------------------------------------------------------------------------
\* Marshal: res = [ok, out, panic]
\* C02/C03/C08: a well-formed value is accepted and encodes to Enc(v)
\* C08: a value over a wire limit is refused
\* C05: any successful output that fits the length field is framed
FramingTags(D, v, out) ==
  IF IsList(v) \/ Len(out) > 262144 THEN {}
  ELSE IF v.k = "TWCC" /\ ~(v.hdr.c <= 31 /\ TwccConsistent(v)) THEN {}
  ELSE IF v.k = "RAW" THEN {}
  ELSE (IF Len(out) % 4 # 0 THEN {"C05:unaligned"} ELSE {})
       \cup (IF Len(out) >= 4 /\ Len(out) % 4 = 0 /\ ~Framed(out) THEN {"C05:length_field"} ELSE {})
       \cup (IF Len(out) >= 4 /\ (HPT(out) # (IF v.k = "TWCC" THEN v.hdr.t ELSE RegPT(D, v))
                                  \/ (RegCount(v) <= 31 /\ HC(out) # RegCount(v)))
             THEN {"C05:header_fields"} ELSE {})

\* v with every field reduced to its wire width (what silent masking would encode)
MaskChunkT(c) == IF c.ct = "rl" THEN [c EXCEPT !.sym = c.sym % 4, !.run = c.run % 8192]
                 ELSE [c EXCEPT !.syms = [i \in 1..Len(c.syms) |-> c.syms[i] % (SvMax(c.ss) + 1)]]
MaskXr(bl) == CASE bl.bt \in {"lrle", "drle", "prt"} -> [bl EXCEPT !.t = bl.t % 16] [] bl.bt = "ss" -> [bl EXCEPT !.toh = bl.toh % 4] [] OTHER -> bl
Masked(v) ==
  CASE v.k = "SLI" -> [v EXCEPT !.sli = [i \in 1..Len(v.sli) |-> [first |-> v.sli[i].first % 8192, number |-> v.sli[i].number % 8192, pic |-> v.sli[i].pic % 64]]]
    [] v.k = "CCFB" -> [v EXCEPT !.blocks = [i \in 1..Len(v.blocks) |-> [v.blocks[i] EXCEPT !.mbs =
                          [q \in 1..Len(v.blocks[i].mbs) |-> [r |-> v.blocks[i].mbs[q].r, ecn |-> v.blocks[i].mbs[q].ecn % 4, ato |-> v.blocks[i].mbs[q].ato % 8192]]]]]
    [] v.k = "TWCC" -> [v EXCEPT !.ref = << 0 >> \o SubSeq(v.ref, 2, 4), !.chunks = [i \in 1..Len(v.chunks) |-> MaskChunkT(v.chunks[i])]]
    [] v.k = "XR" -> [v EXCEPT !.blocks = [i \in 1..Len(v.blocks) |-> MaskXr(v.blocks[i])]]
    [] OTHER -> v
\* a value that is not well-formed only because a field exceeds its wire width: Marshal may refuse it, or
\* encode the field reduced to its width - but then every other field must be encoded as it is (C08, C16)
LeakTags(D, v, res) ==
  IF IsList(v) \/ ~res.ok \/ WF(D, v) THEN {}
  ELSE LET mv == Masked(v) IN
       \* a relative clause: the encoding of a packet kind that carries a pinned deviation is compared with
       \* what that deviation produces for the reduced value (the deviation itself is reported where it belongs)
       IF mv # v /\ WF(D, mv) /\ ~EncEq(D, mv, res.out) /\ ~(WF(Deviations, mv) /\ EncEq(Deviations, mv, res.out))
       THEN {"C08:oversize_field_corrupts_neighbours"} ELSE {}

MarshalTags(D, v, res) ==
  IF res.panic THEN {"PANIC:marshal"}
  ELSE LET wf == WFAny(D, v) IN
       (IF wf /\ ~res.ok THEN {"C02:wf_rejected", "C03:wf_rejected", "C08:within_limit_rejected"} ELSE {})
       \cup (IF wf /\ res.ok /\ ~EncEqAny(D, v, res.out) THEN {"C03:bytes"} ELSE {})
       \cup (IF OverAny(v) /\ res.ok THEN {"C08:over_limit_accepted"} ELSE {})
       \cup (IF res.ok THEN FramingTags(D, v, res.out) ELSE {})
       \cup (IF v.k = "CP" /\ res.ok /\ ~Valid(v.pkts) THEN {"C11:invalid_compound_marshalled"} ELSE {})
       \cup LeakTags(D, v, res)

\* MarshalSize: C05.  out = the integer returned; m = the last Marshal result
\* for the same value ([ok |-> FALSE] if none)
SizeTags(D, v, out, m) ==
  (IF m.ok /\ Len(m.out) <= 262144 /\ out # Len(m.out)
      /\ ~(v.k = "TWCC" /\ ~(v.hdr.c <= 31 /\ TwccConsistent(v)))
   THEN {"C05:marshalsize_vs_output"} ELSE {})
  \cup (IF WFAny(D, v) /\ out # SizeAny(v) THEN {"C05:marshalsize"} ELSE {})

\* Header() accessor: C05
HeaderTags(D, v, out) ==
  IF ~WFAny(D, v) \/ IsList(v) THEN {}
  ELSE LET exp == IF v.k = "TWCC" THEN v.hdr
                  ELSE IF v.k = "RAW" THEN [p |-> HP(v.bytes), c |-> HC(v.bytes), t |-> HPT(v.bytes), len |-> HLen(v.bytes)]
                  ELSE [p |-> (v.k = "APP" /\ AppPad(v) # 0), c |-> RegCount(v), t |-> RegPT(D, v), len |-> Size(v) \div 4 - 1]
       IN IF out # exp THEN {"C05:header_accessor"} ELSE {}

\* DestinationSSRC: C10
DestAny(v) == IF IsList(v) THEN (IF Len(Pk(v)) = 0 THEN << >> ELSE Dest(Pk(v)[1])) ELSE Dest(v)
DestTags(v, out) == IF out # DestAny(v) THEN {"C10:dest"} ELSE {}

\* CompoundPacket.Validate and CNAME (C11)
ValidateTags(v, res) ==
  IF res.panic THEN {"C11:validate_panic"}
  ELSE IF res.ok # Valid(v.pkts) THEN {"C11:validate"} ELSE {}
CnameTags(v, res) ==
  IF res.panic THEN {"C11:cname_panic"}
  ELSE IF Valid(v.pkts) /\ (~res.ok \/ res.out # CNAMEOf(v.pkts)) THEN {"C11:cname"} ELSE {}

---------------------------------------------------------------------------
\* Decoding through kind k's own decoder: res = [ok, out, panic, alloc, slow]
AllocBound(n) == 16777216 + 256 * n
TotalTags(res, n) ==
  (IF res.panic THEN {"C01:panic"} ELSE {})
  \cup (IF res.slow THEN {"C01:timeout"} ELSE {})
  \cup (IF res.alloc > AllocBound(n) THEN {"C01:alloc"} ELSE {})

\* why the specification rejects b for kind k (tag chosen by the clause)
RejTag(D, k, b) ==
  IF k = "RAW" \/ Len(b) < 4 \/ HVer(b) # 2 THEN "C16:bad_header_accepted"
  ELSE IF DecOwn(D, k, b).st = "rej" THEN
         (IF k \in {"SR", "RR", "SDES", "BYE"} THEN "C04:inflated_count_accepted" ELSE "C04:short_packet_accepted")
  ELSE "C07:foreign_accepted"

\* REMB tables (C14): out[i] is the library's decoding of (exp, ms[i]), or
\* its (ok, ex, m) for the float brs[i]
RembDecTags(D, exp, ms, out) ==
  IF Len(out) # Len(ms) THEN {"C14:decode"}
  ELSE IF \E i \in 1..Len(ms) : out[i] # RembFloat(D, exp, ms[i]) THEN {"C14:decode"} ELSE {}
RembEncTags(brs, out) ==
  IF Len(out) # Len(brs) THEN {"C14:encode"}
  ELSE (IF \E i \in 1..Len(brs) : FiniteNonNeg(brs[i]) /\ (~out[i].ok \/ [ex |-> out[i].ex, m |-> out[i].m] # RembPair(brs[i])) THEN {"C14:encode"} ELSE {})
       \cup (IF \E i \in 1..Len(brs) : IsNegative(brs[i]) /\ out[i].ok THEN {"C14:negative_accepted"} ELSE {})

\* C14 on every buffer the library accepts as REMB, valid or not: the count octet equals the
\* number of SSRC entries returned
Remb14Tags(b, res) ==
  IF res.panic \/ res.slow \/ ~res.ok \/ Len(b) < 20 THEN {}
  ELSE IF Len(res.out.ssrcs) # At(b, 16) THEN {"C14:count_octet_mismatch"} ELSE {}

\* C13 on every buffer the library accepts as TransportLayerCC, valid or not:
\* an independent expansion of the raw bytes inside the declared length.
\* Chunks or deltas that do not fit the declared length must be refused; if
\* they fit (and no vector symbol beyond the status count is set: those are
\* padding, observed but not judged) the decoded chunks and deltas are those.
Twcc13Tags(b, res) ==
  IF res.panic \/ res.slow \/ ~res.ok THEN {}
  ELSE IF Len(b) >= 4 /\ HLen(b) >= 16383 THEN {}     \* declared length beyond 65535 octets: outside C04's scope, not judged
  ELSE IF Len(b) < 20 THEN {"C13:short_accepted"}
  ELSE LET total == 4 * (HLen(b) + 1) IN
       IF total > Len(b) \/ total < 20 THEN {"C13:declared_length_exceeds_buffer"}
       ELSE LET w  == Take(b, total)
                cp == ChunkPassL(w, 20, U16At(w, 14), << >>, << >>, TRUE) IN
            IF ~cp.fits THEN {"C13:chunks_outside_declared_length"}
            ELSE IF ~cp.clean THEN {}
            ELSE LET dp == DeltaPass(w, cp.pos, cp.runs, << >>) IN
                 IF ~dp.ok THEN {"C13:deltas_outside_declared_length"}
                 ELSE (IF res.out.chunks # cp.chunks THEN {"C13:chunks"} ELSE {})
                      \cup (IF res.out.deltas # dp.deltas THEN {"C13:deltas"} ELSE {})
                      \cup (IF res.out.count # U16At(w, 14) \/ res.out.hdr.len # HLen(b) THEN {"C13:header"} ELSE {})

\* CompoundPacket.Unmarshal (C11): the datagram decodes and the result validates
DecCP(D, b) ==
  LET r == DecDatagram(D, b) IN
  IF r.st = "ok" THEN (IF Valid(r.v) THEN Ok([k |-> "CP", pkts |-> r.v]) ELSE Rej)
  ELSE r
DecEntry(D, k, b) == IF k = "CP" THEN DecCP(D, b) ELSE DecAs(D, k, b)

\* bytes-level judgement of kind k's own decoder on b (C04, C07, C16, C01)
DecodeTags(D, k, b, res) ==
  TotalTags(res, Len(b)) \cup
  IF res.panic \/ res.slow THEN {}
  ELSE LET r == DecEntry(D, k, b) IN
       IF r.st = "ok" THEN
            (IF ~res.ok THEN {"C04:valid_rejected"}
             ELSE IF res.out # r.v THEN {"C04:value"}
             ELSE {})
       ELSE IF r.st = "rej" THEN (IF res.ok THEN {IF k = "CP" THEN "C11:invalid_compound_accepted" ELSE RejTag(D, k, b)} ELSE {})
       ELSE {}

\* round-trip judgement (C02): b was produced by the library's own Marshal
\* from the well-formed value v and is now decoded by v's own decoder.  Under
\* the strict model the expected result is Norm(v) (theorem RoundTrip of
\* Codec.tla); under a deviation it is whatever the deviating model decodes
\* from its own encoding.
RtOwnTags(D, v, res) ==
  IF res.panic \/ res.slow THEN {}
  ELSE LET r == DecAs(D, v.k, EncPacket(D, v)) IN
       IF r.st # "ok" THEN {}
       ELSE IF ~res.ok THEN {"C02:own_output_rejected"}
       ELSE IF res.out # r.v THEN {"C02:roundtrip_value"}
       ELSE {}

\* ... and by the datagram decoder, which must return the same kinds (C02, C07)
RtDatagramTags(D, v, res) ==
  IF res.panic \/ res.slow THEN {}
  ELSE LET r == DecDatagram(D, EncAny(D, v)) IN
       IF r.st # "ok" THEN {}
       ELSE IF ~res.ok THEN {"C02:own_output_rejected", "C07:own_output_dispatch"}
       ELSE IF Len(res.out) # Len(r.v) \/ \E i \in 1..Len(r.v) : res.out[i].k # r.v[i].k
            THEN {"C02:roundtrip_type", "C07:own_output_dispatch"}
       ELSE IF res.out # r.v THEN {"C02:roundtrip_value"}
       ELSE {}

\* C09: v was produced by a decoder, Marshal of it succeeded, and the new
\* bytes are decoded again: they must be accepted and give an equal value.
\* A TransportLayerCC whose header is inconsistent with its content is exempt.
\* Under a deviation the expectation is the deviating model's own round trip.
TwccExempt(v) ==
  IF IsList(v) THEN \E i \in 1..Len(Pk(v)) : Pk(v)[i].k = "TWCC" /\ ~(Pk(v)[i].hdr.c <= 31 /\ TwccConsistent(Pk(v)[i]))
  ELSE v.k = "TWCC" /\ ~(v.hdr.c <= 31 /\ TwccConsistent(v))
StableTags(D, v, res) ==
  IF res.panic \/ res.slow \/ TwccExempt(v) \/ v.pkts = << >> THEN {}
  ELSE LET strict == D = {} \/ ~WFAny(D, v)
           r == IF strict THEN Ok(v.pkts) ELSE DecDatagram(D, EncAny(D, v)) IN
       IF r.st # "ok" THEN {}
       ELSE IF ~res.ok THEN {"C09:reencoded_rejected"}
       ELSE IF res.out # r.v THEN {"C09:reencoded_differs"}
       ELSE {}

\* bytes-level judgement of rtcp.Unmarshal on a datagram (C04, C06, C07, C01)
DatagramTags(D, b, res) ==
  TotalTags(res, Len(b)) \cup
  IF res.panic \/ res.slow THEN {}
  ELSE LET sp == SplitFrames(b, << >>)
           r  == DecSplit(D, sp)
       IN  (IF res.ok /\ (~sp.ok \/ sp.frames = << >>) THEN {"C06:bad_framing_accepted"} ELSE {})
           \cup (IF res.ok /\ sp.ok /\ Len(res.out) # Len(sp.frames) THEN {"C06:frame_count"} ELSE {})
           \cup (IF ~res.ok /\ res.out # << >> THEN {"C06:packets_with_error"} ELSE {})
           \cup (IF r.st = "ok" /\ ~res.ok THEN {"C04:valid_rejected"} ELSE {})
           \cup (IF r.st = "ok" /\ res.ok /\ res.out # r.v
                    /\ Len(res.out) = Len(r.v) /\ (\A i \in 1..Len(r.v) : res.out[i].k = r.v[i].k)
                 THEN {"C04:value"} ELSE {})
           \cup (IF r.st = "rej" /\ res.ok /\ sp.ok /\ sp.frames # << >> THEN {"C06:malformed_frame_accepted"} ELSE {})
           \* dispatch (C07): whatever the values, each returned packet has the
           \* kind registered for its frame's (PT, FMT); RawPacket is verbatim
           \cup (IF res.ok /\ sp.ok /\ Len(res.out) = Len(sp.frames) /\
                    \E i \in 1..Len(sp.frames) :
                       \/ res.out[i].k # Kind(D, HPT(sp.frames[i]), HC(sp.frames[i]))
                       \/ (res.out[i].k = "RAW" /\ res.out[i].bytes # sp.frames[i])
                 THEN {"C07:dispatch"} ELSE {})
---------------------------------------------------------------------------
\* Fixed-width and sub-structure units (C16, C01, C08): exported codecs of
\* Header, ReceptionReport, SourceDescriptionChunk/Item, RunLengthChunk,
\* StatusVectorChunk, RecvDelta
DecUnit(u, b) ==
  CASE u = "hdr" -> DecHdr(b) [] u = "rb" -> DecRBUnit(b) [] u = "chunk" -> DecChunkUnit(b)
    [] u = "item" -> DecItemUnit(b) [] u = "rl" -> DecRunLengthUnit(b) [] u = "sv" -> DecStatusVectorUnit(b)
    [] u = "delta" -> DecDeltaUnit(b)
\* Ok(bytes) for a well-formed unit value, Rej where C08/C16 demand an error, NA otherwise
EncUnit(u, v) ==
  CASE u = "hdr"   -> IF v.c > 31 THEN Rej ELSE IF WFHdr(v) THEN Ok(EncHdrRec(v)) ELSE NA
    [] u = "rb"    -> IF OverRB(v) THEN Rej ELSE Ok(EncRB(v))
    [] u = "item"  -> IF OverItem(v) THEN Rej ELSE Ok(EncItem(v))
    [] u = "chunk" -> IF OverChunk(v) THEN Rej ELSE Ok(EncChunk(v))
    [] u = "rl"    -> IF v.sym \in 0..3 /\ v.run \in 0..8191 THEN Ok(BE16(v.sym * 8192 + v.run)) ELSE NA
    [] u = "sv"    -> IF v.ss \in {0, 1} /\ Len(v.syms) = SvLen(v.ss) /\ (\A i \in 1..Len(v.syms) : v.syms[i] \in 0..SvMax(v.ss))
                      THEN Ok(EncChunkT(v)) ELSE NA
    [] u = "delta" -> IF v.t \in {1, 2} THEN (IF DeltaInRange(v) THEN Ok(EncDelta(v)) ELSE Rej) ELSE NA
UnitDecodeTags(u, b, res) ==
  TotalTags(res, Len(b)) \cup
  IF res.panic \/ res.slow THEN {}
  ELSE LET r == DecUnit(u, b) IN
       IF r.st = "ok" THEN (IF ~res.ok THEN {"C16:unit_rejected"} ELSE IF res.out # r.v THEN {"C16:unit_value"} ELSE {})
       ELSE IF r.st = "rej" THEN (IF res.ok THEN {"C16:unit_bad_input_accepted"} ELSE {})
       ELSE {}
UnitEncodeTags(u, v, res) ==
  IF res.panic THEN {"PANIC:unit_marshal"}
  ELSE IF u = "rl" /\ res.ok /\ ~(v.sym \in 0..3 /\ v.run \in 0..8191)
       THEN (IF res.out # BE16((v.sym % 4) * 8192 + (v.run % 8192)) THEN {"C16:unit_oversize_field_corrupts_neighbours"} ELSE {})
  ELSE LET r == EncUnit(u, v) IN
       IF r.st = "ok" THEN (IF ~res.ok THEN {"C16:unit_rejected"} ELSE IF res.out # r.v THEN {"C16:unit_bytes"} ELSE {})
       ELSE IF r.st = "rej" THEN (IF res.ok THEN {"C08:over_limit_accepted", "C16:unit_over_accepted"} ELSE {})
       ELSE {}
=============================================================================
