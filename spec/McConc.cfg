SPECIFICATION CSpec
CONSTANTS
  G = {1, 2, 3}
  SharedVals <- McSharedVals
  PrivVals <- McPrivVals
  MaxCalls = 2
  SharedScratch = FALSE
INVARIANTS SequentialResults SharedUnchanged
PROPERTY NoSharedWrites
CHECK_DEADLOCK FALSE
