-------------------------------- MODULE Ccfb --------------------------------
(* RFC 8888 congestion control feedback, 205/11.                            *)
(*   4 sender SSRC; report blocks: SSRC(32) begin_seq(16) num_reports(16),  *)
(*   num_reports metric blocks R(1) ECN(2) ATO(13), one zero 16-bit pad if  *)
(*   odd; the last 4 octets are the report timestamp.  When R = 0 the other *)
(*   15 bits are ignored on receipt and sent as zero.                        *)
(* Deviation CCFB_NUM: the library writes num_reports as n-1 (0 for n = 0), *)
(* reads f as f+1 metric blocks (0 for f = 0) and rejects begin+f > 65535.  *)
(* Deviation CCFB_ANY_FMT: the library's own decoder ignores the FMT.       *)
EXTENDS Hdr

WFMB(m)    == m.ecn \in 0..3 /\ m.ato \in 0..8191 /\ (~m.r => (m.ecn = 0 /\ m.ato = 0))
MBWord(m)  == IF m.r THEN 32768 + m.ecn * 8192 + m.ato ELSE 0
EncMB(m)   == BE16(MBWord(m))
DecMBWord(w) == IF w >= 32768 THEN [r |-> TRUE, ecn |-> Bits(w, 13, 2), ato |-> w % 8192]
                ELSE [r |-> FALSE, ecn |-> 0, ato |-> 0]
\* metric block unit (C16)
DecMBUnit(b) == IF Len(b) < 2 THEN Rej ELSE IF Len(b) > 2 THEN NA ELSE Ok(DecMBWord(U16At(b, 0)))

NumField(D, n)   == IF "CCFB_NUM" \in D THEN Max(n - 1, 0) ELSE n
NumBlocks(D, f)  == IF "CCFB_NUM" \in D THEN (IF f = 0 THEN 0 ELSE f + 1) ELSE f
CcBlockSize(bl)  == 8 + 2 * Len(bl.mbs) + 2 * (Len(bl.mbs) % 2)
WFCcBlock(bl)    == Len(bl.mbs) <= 16384 /\ bl.begin \in 0..65535 /\ \A i \in 1..Len(bl.mbs) : WFMB(bl.mbs[i])
EncCcBlock(D, bl) == bl.media \o BE16(bl.begin) \o BE16(NumField(D, Len(bl.mbs)))
                     \o FlatFixed(EncMB, bl.mbs, 2) \o Zeros(2 * (Len(bl.mbs) % 2))
SizeCCFB(v)  == 12 + SeqSum([i \in 1..Len(v.blocks) |-> CcBlockSize(v.blocks[i])])
WFCCFB(v)    == SizeCCFB(v) <= 262144 /\ \A i \in 1..Len(v.blocks) : WFCcBlock(v.blocks[i])
OverCCFB(v)  == \E i \in 1..Len(v.blocks) : Len(v.blocks[i].mbs) > 16384
EncCCFB(D, v) ==
  LET EB(bl) == EncCcBlock(D, bl) IN
  EncHdr(FALSE, 11, 205, SizeCCFB(v) \div 4 - 1) \o v.sender \o FlatMap(EB, v.blocks) \o v.ts

RECURSIVE CcBlocks(_, _, _, _, _)
\* blocks occupy [off, lim)
CcBlocks(D, b, off, lim, acc) ==
  IF off = lim THEN [ok |-> TRUE, blocks |-> acc]
  ELSE IF off + 8 > lim THEN [ok |-> FALSE]
  ELSE LET f   == U16At(b, off + 6)
           bg  == U16At(b, off + 4)
           n   == NumBlocks(D, f)
           sz  == 8 + 2 * n + 2 * (n % 2)
       IN  IF "CCFB_NUM" \in D /\ f # 0 /\ bg + f > 65535 THEN [ok |-> FALSE]
           ELSE IF off + sz > lim THEN [ok |-> FALSE]
           ELSE IF n % 2 = 1 /\ U16At(b, off + 8 + 2 * n) # 0 THEN [ok |-> FALSE]
           ELSE CcBlocks(D, b, off + sz, lim,
                  Append(acc, [ media |-> Sl(b, off, 4), begin |-> bg,
                                mbs |-> [i \in 1..n |-> DecMBWord(U16At(b, off + 6 + 2 * i))] ]))

DecCCFB(D, b) ==
  IF ~(Framed(b) /\ HPT(b) = 205 /\ ~HP(b)) THEN NA
  ELSE IF HC(b) # 11 THEN NA
  ELSE IF Len(b) < 12 THEN Rej
  ELSE LET r == CcBlocks(D, b, 8, Len(b) - 4, << >>) IN
       IF ~r.ok THEN NA
       ELSE Ok([k |-> "CCFB", sender |-> Sl(b, 4, 4), blocks |-> r.blocks, ts |-> From(b, Len(b) - 4)])
DestCCFB(v) == [i \in 1..Len(v.blocks) |-> v.blocks[i].media]
=============================================================================
