SPECIFICATION USpec
CONSTANTS
  Tables <- QuickTables
INVARIANTS DecEnc EncDec RlePartition
CHECK_DEADLOCK FALSE
