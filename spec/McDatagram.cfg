SPECIFICATION DSpec
CONSTANTS
  MaxFrames = 2
INVARIANTS CursorInside OnePerFrame Contiguous AllOrNothing Local Refines
PROPERTIES Final Progress
CHECK_DEADLOCK FALSE
