SPECIFICATION McSpec
CONSTANTS
  H = {1, 2, 3}
  D0 = {}
  Mode = "hist"
  KindsUnderTest = {"SR", "SDES", "APP", "TWCC", "XR", "REMB", "RAW"}
  FaultDepth = 1
  MaxFrames = 2
  MaxCompound = 3
  MaxHist = 3
  AllPTs = FALSE
INVARIANTS TypeOK
PROPERTIES PacketUntouched BufferOnlyByMarshal
CHECK_DEADLOCK FALSE
