SPECIFICATION NSpec
CONSTANTS
  SeqVals = {0, 1, 2, 3, 14, 15, 16, 17, 18, 19, 31, 32, 33, 34, 255, 256, 32767, 32768, 65517, 65518, 65519, 65520, 65521, 65533, 65534, 65535}
  MaxList = 3
  RangeLists = 2
  MaxPairs = 70
  TableIds = {0, 1, 255, 32768, 65520, 65535}
INVARIANTS LoopInvariant CoverExact BuilderRefines CursorBound RangeIsPrefix RangeComplete Equivariant
CHECK_DEADLOCK FALSE
