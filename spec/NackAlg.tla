------------------------------ MODULE NackAlg ------------------------------
(* The NACK helpers as step machines (C12): the pair builder loop and the   *)
(* Range walk, with their invariants, checked by TLC against the            *)
(* declarative definitions of NackDefs.tla; the explored inputs are emitted *)
(* for replay on the real code.                                              *)
EXTENDS NackDefs, Json

\* ---- the machines ---------------------------------------------------------
CONSTANTS SeqVals,      \* sequence numbers the lists are drawn from
          MaxList,      \* maximal list length
          TableIds,     \* packet IDs for the complete bitmap tables
          MaxPairs,     \* longest "spaced" list (number of pairs it opens)
          RangeLists    \* Range is walked on the pairs built from lists up to this length
VARIABLES phase,        \* "pick" | "build" | "built" | "table" | "done"
          input, idx, pairs, cur,     \* builder loop
          rp, rstop, rbits, ridx, rvisited   \* Range walk: pair, stop, remaining bitmap, bit index, visited
nvars == << phase, input, idx, pairs, cur, rp, rstop, rbits, ridx, rvisited >>

NoPair == [pid |-> 0, blp |-> 0]
NInit == /\ phase = "pick" /\ input = << >> /\ idx = 0 /\ pairs = << >> /\ cur = NoPair
         /\ rp = NoPair /\ rstop = 0 /\ rbits = 0 /\ ridx = 0 /\ rvisited = << >>

\* longer lists: k numbers 100 apart (k pairs), then one more that belongs to the window of an earlier pair
Spaced(k, j, dd) == [i \in 1..k |-> 100 * (i - 1)] \o << 100 * (j - 1) + dd >>
LongLists == UNION { { Spaced(k, j, dd) : j \in { x \in 1..k : x = 1 \/ x >= k - 1 }, dd \in {1, 16, 17} } : k \in 1..MaxPairs }
Lists == UNION { [1..n -> SeqVals] : n \in 0..MaxList } \cup LongLists
Emit(rec) == PrintT(<< "VERIF_BEH", ToJson(rec) >>)

PickList ==
  /\ phase = "pick"
  /\ \E s \in Lists :
       /\ input' = s
       /\ IF s = << >> THEN phase' = "built" /\ idx' = 0 /\ cur' = NoPair
          ELSE phase' = "build" /\ idx' = 2 /\ cur' = [pid |-> s[1], blp |-> 0]
  /\ pairs' = << >> /\ UNCHANGED << rp, rstop, rbits, ridx, rvisited >>
\* one iteration of the loop of NackPairsFromSequenceNumbers
BuildStep ==
  /\ phase = "build"
  /\ IF idx > Len(input)
     THEN /\ pairs' = Append(pairs, cur) /\ phase' = "built" /\ UNCHANGED << idx, cur >>
          /\ Emit([script |-> "nack", seqs |-> input])
     ELSE LET m == input[idx]  gap == M16(m - cur.pid) IN
          /\ idx' = idx + 1 /\ phase' = "build"
          /\ IF gap > 16 THEN pairs' = Append(pairs, cur) /\ cur' = [pid |-> m, blp |-> 0]
             ELSE /\ pairs' = pairs
                  /\ cur' = IF gap = 0 \/ Bit(cur.blp, gap - 1) = 1 THEN cur ELSE [cur EXCEPT !.blp = cur.blp + 2 ^ (gap - 1)]
  /\ UNCHANGED << input, rp, rstop, rbits, ridx, rvisited >>
\* Range on one of the built pairs, with every early-stop position
StartRange ==
  /\ phase = "built" /\ pairs # << >> /\ Len(input) <= RangeLists
  /\ \E i \in 1..Len(pairs), k \in 0..17 :
       /\ rp' = pairs[i] /\ rstop' = k /\ rbits' = pairs[i].blp /\ ridx' = 0
       /\ rvisited' = << pairs[i].pid >>
  /\ phase' = IF rstop' = 0 THEN "done" ELSE "range"
  /\ UNCHANGED << input, idx, pairs, cur >>
RangeStep ==
  /\ phase = "range"
  /\ IF rbits = 0 THEN phase' = "done" /\ UNCHANGED << rbits, ridx, rvisited >>
     ELSE IF Bit(rbits, ridx) = 1
          THEN /\ rbits' = rbits - 2 ^ ridx
               /\ rvisited' = Append(rvisited, M16(rp.pid + ridx + 1))
               /\ ridx' = ridx + 1
               /\ phase' = IF Len(rvisited') > rstop THEN "done" ELSE "range"
          ELSE /\ ridx' = ridx + 1 /\ UNCHANGED << rbits, rvisited >> /\ phase' = "range"
  /\ UNCHANGED << input, idx, pairs, cur, rp, rstop >>
\* complete bitmap tables at a few packet IDs, 256 bitmaps per emitted row
TableStep ==
  /\ phase = "pick"
  /\ \E id \in TableIds, c \in 0..255 :
       /\ rp' = [pid |-> id, blp |-> c]
       /\ Emit([script |-> "pairs", id |-> id, bms |-> [i \in 1..256 |-> 256 * c + i - 1]])
  /\ phase' = "table"
  /\ UNCHANGED << input, idx, pairs, cur, rstop, rbits, ridx, rvisited >>

NNext == PickList \/ BuildStep \/ StartRange \/ RangeStep \/ TableStep
NSpec == NInit /\ [][NNext]_nvars

\* ---- invariants ---------------------------------------------------------------
\* the loop invariant: what has been emitted plus the open pair covers exactly what was consumed
LoopInvariant == phase = "build" => NackCovered(Append(pairs, cur)) = { input[j] : j \in 1..(idx - 1) }
\* none missing, none extra
CoverExact == phase \in {"built", "range", "done"} => NackCovered(pairs) = SeqSet(input)
\* the machine computes the function the trace specification uses
BuilderRefines == phase \in {"built", "range", "done"} => pairs = RefPairs(input)
\* progress: the cursor only moves forward and is bounded by the input
CursorBound == idx <= Len(input) + 1
\* Range visits a prefix of PacketList, in order, and stops as soon as told
RangeIsPrefix == phase \in {"range", "done"} /\ rvisited # << >> =>
  /\ Len(rvisited) <= Len(PacketList(rp))
  /\ rvisited = SubSeq(PacketList(rp), 1, Len(rvisited))
  /\ Len(rvisited) <= rstop + 1
RangeComplete == phase = "done" /\ rvisited # << >> => rvisited = RangePrefix(rp, rstop)
\* equivariance in the packet ID (justifies checking the 2^32 pairs as a 2^16
\* table at one ID plus the shift relation, DESIGN.md 3.6)
Equivariant == phase = "table" =>
  \A i \in 0..255 :
     LET bm  == 256 * rp.blp + i
         pl0 == PacketList([pid |-> 0, blp |-> bm])
         pl  == PacketList([pid |-> rp.pid, blp |-> bm])
     IN  pl = [j \in 1..Len(pl0) |-> M16(pl0[j] + rp.pid)]
=============================================================================
