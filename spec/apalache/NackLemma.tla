----------------------------- MODULE NackLemma -----------------------------
(* The step lemma behind the loop invariant of NackPairsFromSequenceNumbers *)
(* (NackAlg.tla LoopInvariant), for Apalache: for EVERY open pair and EVERY *)
(* next sequence number in 0..65535 (2^48 combinations, symbolically), one  *)
(* iteration of the loop adds exactly that number to what is covered:       *)
(*   gap > 16 : the open pair is emitted unchanged and the new pair covers  *)
(*              exactly {m};                                                *)
(*   gap <= 16: the open pair afterwards covers what it covered plus m.     *)
(* Together with Covered(Append(ps, p)) = Covered(ps) \cup PairSet(p) this  *)
(* makes the loop invariant inductive for lists of any length.              *)
EXTENDS Integers, FiniteSets, Apalache

CONSTANT
  \* @type: Int;
  K      \* the gap this instance is about (0..16; 17 stands for "more than 16")

VARIABLES
  \* @type: {pid: Int, blp: Int};
  cur,
  \* @type: Int;
  m

M16(x)      == ((x % 65536) + 65536) % 65536
Pow2(k)     == IF k = 0 THEN 1 ELSE IF k = 1 THEN 2 ELSE IF k = 2 THEN 4 ELSE IF k = 3 THEN 8 ELSE IF k = 4 THEN 16
               ELSE IF k = 5 THEN 32 ELSE IF k = 6 THEN 64 ELSE IF k = 7 THEN 128 ELSE IF k = 8 THEN 256 ELSE IF k = 9 THEN 512
               ELSE IF k = 10 THEN 1024 ELSE IF k = 11 THEN 2048 ELSE IF k = 12 THEN 4096 ELSE IF k = 13 THEN 8192
               ELSE IF k = 14 THEN 16384 ELSE 32768
Bit(x, i)   == (x \div Pow2(i)) % 2
\* @type: ({pid: Int, blp: Int}) => Set(Int);
PairSet(p)  == {p.pid} \cup { M16(p.pid + i + 1) : i \in { j \in 0..15 : Bit(p.blp, j) = 1 } }

Init == /\ cur = Gen(1) /\ m = Gen(1)
        /\ cur.pid \in 0..65535 /\ cur.blp \in 0..65535 /\ m \in 0..65535
Next == UNCHANGED << cur, m >>

\* what one loop iteration does to the open pair (NackAlg.tla BuildStep)
Gap == M16(m - cur.pid)
InitK == Init /\ (IF K = 17 THEN Gap > 16 ELSE Gap = K)
CurAfter == IF Gap > 16 THEN [pid |-> m, blp |-> 0]
            ELSE IF Gap = 0 \/ Bit(cur.blp, Gap - 1) = 1 THEN cur ELSE [cur EXCEPT !.blp = cur.blp + Pow2(Gap - 1)]

StepLemma ==
  /\ CurAfter.pid \in 0..65535 /\ CurAfter.blp \in 0..65535
  /\ IF Gap > 16 THEN PairSet(CurAfter) = {m}
     ELSE PairSet(CurAfter) = PairSet(cur) \cup {m}
=============================================================================
