------------------------------ MODULE NackInd ------------------------------
(* The loop of NackPairsFromSequenceNumbers (NackAlg.tla BuildStep) with its *)
(* loop invariant as an INDUCTIVE invariant, for Apalache: sequence numbers  *)
(* are arbitrary integers in 0..65535 (not a handful of boundary values as   *)
(* in the TLC configurations), the list has up to MaxLen entries.            *)
EXTENDS Integers, Sequences, FiniteSets, Apalache

CONSTANT
  \* @type: Int;
  MaxLen

VARIABLES
  \* @type: Seq(Int);
  input,
  \* @type: Int;
  idx,
  \* @type: Seq({pid: Int, blp: Int});
  pairs,
  \* @type: {pid: Int, blp: Int};
  cur

M16(x)      == ((x % 65536) + 65536) % 65536
Pow2(k)     == IF k = 0 THEN 1 ELSE IF k = 1 THEN 2 ELSE IF k = 2 THEN 4 ELSE IF k = 3 THEN 8 ELSE IF k = 4 THEN 16
               ELSE IF k = 5 THEN 32 ELSE IF k = 6 THEN 64 ELSE IF k = 7 THEN 128 ELSE IF k = 8 THEN 256 ELSE IF k = 9 THEN 512
               ELSE IF k = 10 THEN 1024 ELSE IF k = 11 THEN 2048 ELSE IF k = 12 THEN 4096 ELSE IF k = 13 THEN 8192
               ELSE IF k = 14 THEN 16384 ELSE 32768
Bit(x, i)   == (x \div Pow2(i)) % 2
\* @type: ({pid: Int, blp: Int}) => Set(Int);
PairSet(p)  == {p.pid} \cup { M16(p.pid + i + 1) : i \in { j \in 0..15 : Bit(p.blp, j) = 1 } }
\* @type: (Seq({pid: Int, blp: Int})) => Set(Int);
Covered(ps) == UNION { PairSet(ps[i]) : i \in DOMAIN ps }

Init ==
  /\ input = Gen(3)
  /\ idx = 2 /\ pairs = << >> /\ cur = [pid |-> 0, blp |-> 0]

Next ==
  /\ idx <= Len(input)
  /\ LET m == input[idx]  gap == M16(m - cur.pid) IN
     /\ idx' = idx + 1
     /\ IF gap > 16 THEN pairs' = Append(pairs, cur) /\ cur' = [pid |-> m, blp |-> 0]
        ELSE /\ pairs' = pairs
             /\ cur' = IF gap = 0 \/ Bit(cur.blp, gap - 1) = 1 THEN cur ELSE [cur EXCEPT !.blp = cur.blp + Pow2(gap - 1)]
  /\ UNCHANGED input

TypeInv ==
  /\ Len(input) >= 1 /\ Len(input) <= MaxLen
  /\ \A i \in DOMAIN input : input[i] \in 0..65535
  /\ idx \in 2..(Len(input) + 1)
  /\ Len(pairs) <= idx - 2
  /\ \A i \in DOMAIN pairs : pairs[i].pid \in 0..65535 /\ pairs[i].blp \in 0..65535
  /\ cur.pid \in 0..65535 /\ cur.blp \in 0..65535

LoopInvariant == Covered(pairs) \cup PairSet(cur) = { input[j] : j \in { x \in DOMAIN input : x < idx } }

IndInv == TypeInv /\ LoopInvariant

\* the state on entry to the loop: the first number opens the first pair
IndInit ==
  /\ input = Gen(MaxLen) /\ pairs = Gen(MaxLen) /\ cur = Gen(1) /\ idx = Gen(1)
  /\ IndInv
LoopEntry ==
  /\ input = Gen(MaxLen) /\ Len(input) >= 1 /\ Len(input) <= MaxLen /\ (\A i \in DOMAIN input : input[i] \in 0..65535)
  /\ idx = 2 /\ pairs = << >> /\ cur = [pid |-> input[1], blp |-> 0]
=============================================================================
