------------------------------- MODULE Bytes -------------------------------
(* Octet-string helpers shared by every wire module.                        *)
(* A byte string is a sequence over 0..255.  Offsets named "off" are the    *)
(* 0-based octet offsets used in the RFC figures; TLA+ sequences are        *)
(* 1-based, so At(b, off) = b[off+1].  All integers stay below 2^31 (TLC    *)
(* raises an overflow error otherwise); 32/64-bit fields are byte tuples.   *)
EXTENDS Integers, Sequences, FiniteSets, TLC

Byte == 0..255
IsBytes(b) == \A i \in 1..Len(b) : b[i] \in Byte

At(b, off)      == b[off + 1]
Sl(b, off, n)   == SubSeq(b, off + 1, off + n)          \* n octets from offset off
From(b, off)    == SubSeq(b, off + 1, Len(b))           \* everything from offset off
Take(b, n)      == SubSeq(b, 1, n)

Zeros(n)        == [i \in 1..n |-> 0]
Fill(n, x)      == [i \in 1..n |-> x]
PadLen(n)       == (4 - (n % 4)) % 4
Pad4(b)         == b \o Zeros(PadLen(Len(b)))
AllZero(b)      == \A i \in 1..Len(b) : b[i] = 0

BE16(n)         == << n \div 256, n % 256 >>
BE24(n)         == << n \div 65536, (n \div 256) % 256, n % 256 >>
U16At(b, off)   == At(b, off) * 256 + At(b, off + 1)
U24At(b, off)   == At(b, off) * 65536 + At(b, off + 1) * 256 + At(b, off + 2)

\* bits [lo, lo+n) of x, bit 0 = least significant
Bits(x, lo, n)  == (x \div (2 ^ lo)) % (2 ^ n)

BoolBit(p)      == IF p THEN 1 ELSE 0

\* Concatenation of a sequence of sequences, by halving: TLC's cost of a recursion grows with its
\* depth (every level lengthens the chain of bindings a lookup walks), so a linear recursion over
\* 65,535 pieces is quadratic; halving keeps the depth logarithmic.
RECURSIVE FlatRange(_, _, _)
FlatRange(ss, lo, hi) ==
  IF lo > hi THEN << >>
  ELSE IF lo = hi THEN ss[lo]
  ELSE LET mid == (lo + hi) \div 2 IN FlatRange(ss, lo, mid) \o FlatRange(ss, mid + 1, hi)
FlatSeq(ss) == FlatRange(ss, 1, Len(ss))

\* concatenation of f(s[i]) for i in 1..Len(s)
FlatMap(f(_), s) == FlatSeq([i \in 1..Len(s) |-> f(s[i])])

\* fixed-width records: concatenation where every f(s[i]) has width w, built
\* in one pass (linear), used for long lists
FlatFixed(f(_), s, w) ==
  LET enc == [i \in 1..Len(s) |-> f(s[i])]
  IN  [j \in 1..(w * Len(s)) |-> enc[((j - 1) \div w) + 1][((j - 1) % w) + 1]]

RECURSIVE SumRange(_, _, _)
SumRange(s, lo, hi) ==
  IF lo > hi THEN 0
  ELSE IF lo = hi THEN s[lo]
  ELSE LET mid == (lo + hi) \div 2 IN SumRange(s, lo, mid) + SumRange(s, mid + 1, hi)
SeqSum(s) == SumRange(s, 1, Len(s))

Min(a, b) == IF a < b THEN a ELSE b
Max(a, b) == IF a > b THEN a ELSE b

\* result constructors used by every decoder
Ok(v)  == [st |-> "ok", v |-> v]
Rej    == [st |-> "rej"]      \* the properties require an error
NA     == [st |-> "na"]       \* outside what the RFCs define: success or error both allowed
=============================================================================
