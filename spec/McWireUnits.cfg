SPECIFICATION McSpec
CONSTANTS
  H = {1, 2, 3}
  D0 = {}
  Mode = "wire"
  KindsUnderTest = {"NACK", "SLI", "FIR", "SR", "RR", "TWCC"}
  FaultDepth = 1
  MaxFrames = 2
  MaxCompound = 3
  MaxHist = 3
  AllPTs = FALSE
INVARIANTS TypeOK RoundTrip RoundTripList Framing DispatchBack UniqueKind NoTrunc Stable DecodedWF Remarshal ListRemarshal AllAccepted DestStable
CHECK_DEADLOCK FALSE
