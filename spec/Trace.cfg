SPECIFICATION TraceSpec
CONSTANTS
  H = {0, 1, 2, 3, 4, 5, 6, 7, 8}
  D0 = {}
INVARIANT Report
CHECK_DEADLOCK FALSE
