--------------------------------- MODULE Xr ---------------------------------
(* RFC 3611 extended reports, PT 207.  4 sender SSRC, then report blocks:   *)
(* BT(8) type-specific(8) block length(16) = size in words minus one        *)
(* (including this 4-octet block header), then the contents.                 *)
(* Block values carry a bt tag: lrle drle prt rrt dlrr ss voip unk.          *)
EXTENDS Hdr

XrBT(bl) == CASE bl.bt = "lrle" -> 1 [] bl.bt = "drle" -> 2 [] bl.bt = "prt" -> 3 [] bl.bt = "rrt" -> 4
              [] bl.bt = "dlrr" -> 5 [] bl.bt = "ss" -> 6 [] bl.bt = "voip" -> 7 [] bl.bt = "unk" -> bl.type
\* type-specific octet: rsvd(4) T(4) for 1..3; L D J ToH(2) rsvd(3) for 6; 0 otherwise
XrTS(bl) == CASE bl.bt \in {"lrle", "drle", "prt"} -> bl.t
              [] bl.bt = "ss" -> 128 * BoolBit(bl.l) + 64 * BoolBit(bl.d) + 32 * BoolBit(bl.j) + 8 * bl.toh
              [] bl.bt = "unk" -> bl.ts
              [] OTHER -> 0
EncDlrrSub(r) == r.ssrc \o r.lrr \o r.dlrr
XrBody(bl) ==
  CASE bl.bt \in {"lrle", "drle"} -> bl.ssrc \o BE16(bl.bs) \o BE16(bl.es) \o FlatFixed(BE16, bl.chunks, 2)
    [] bl.bt = "prt"  -> bl.ssrc \o BE16(bl.bs) \o BE16(bl.es) \o FlatSeq(bl.times)
    [] bl.bt = "rrt"  -> bl.ntp
    [] bl.bt = "dlrr" -> FlatFixed(EncDlrrSub, bl.reports, 12)
    [] bl.bt = "ss"   -> bl.ssrc \o BE16(bl.bs) \o BE16(bl.es) \o bl.lost \o bl.dup
                         \o bl.minj \o bl.maxj \o bl.meanj \o bl.devj
                         \o << bl.mint, bl.maxt, bl.meant, bl.devt >>
    [] bl.bt = "voip" -> bl.ssrc \o << bl.lr, bl.dr, bl.bd, bl.gd >>
                         \o BE16(bl.bdur) \o BE16(bl.gdur) \o BE16(bl.rtd) \o BE16(bl.esd)
                         \o << bl.sl, bl.nl, bl.rerl, bl.gmin, bl.rf, bl.erf, bl.moslq, bl.moscq, bl.rxc, 0 >>
                         \o BE16(bl.jbn) \o BE16(bl.jbm) \o BE16(bl.jba)
    [] bl.bt = "unk"  -> bl.bytes
XrBodyLen(bl) ==
  CASE bl.bt \in {"lrle", "drle"} -> 8 + 2 * Len(bl.chunks)
    [] bl.bt = "prt"  -> 8 + 4 * Len(bl.times)
    [] bl.bt = "rrt"  -> 8
    [] bl.bt = "dlrr" -> 12 * Len(bl.reports)
    [] bl.bt = "ss"   -> 36
    [] bl.bt = "voip" -> 32
    [] bl.bt = "unk"  -> Len(bl.bytes)
XrBlockSize(bl) == 4 + XrBodyLen(bl)
\* the wire header the library echoes into XRHeader: <<BT, TS, words-1>>
XrHeaderOf(bl)  == << XrBT(bl), XrTS(bl), XrBlockSize(bl) \div 4 - 1 >>
EncXrBlock(bl)  == << XrBT(bl), XrTS(bl) >> \o BE16(XrBlockSize(bl) \div 4 - 1) \o XrBody(bl)
WFXrBlock(bl) ==
  /\ XrBlockSize(bl) % 4 = 0 /\ XrBlockSize(bl) <= 262144
  /\ CASE bl.bt \in {"lrle", "drle"} -> bl.t \in 0..15 /\ \A i \in 1..Len(bl.chunks) : bl.chunks[i] \in 0..65535
       [] bl.bt = "prt" -> bl.t \in 0..15
       [] bl.bt = "ss"  -> bl.toh \in 0..3
       [] bl.bt = "unk" -> bl.type \in (0..255) \ (1..7) /\ bl.ts \in Byte
       [] OTHER -> TRUE
SizeXR(v) == 8 + SeqSum([i \in 1..Len(v.blocks) |-> XrBlockSize(v.blocks[i])])
WFXR(v)   == SizeXR(v) <= 262144 /\ \A i \in 1..Len(v.blocks) : WFXrBlock(v.blocks[i])
OverXR(v) == FALSE
EncXR(v)  == EncHdr(FALSE, 0, 207, SizeXR(v) \div 4 - 1) \o v.sender \o FlatMap(EncXrBlock, v.blocks)

\* one block occupying exactly [off, off+n): NA-marker [ok |-> FALSE] when
\* the block length disagrees with the block type's fixed layout
DecXrBlock(b, off, n) ==
  LET bt == At(b, off)  ts == At(b, off + 1)  c == off + 4  m == n - 4 IN
  CASE bt \in {1, 2} ->
         IF m < 8 \/ m % 2 # 0 THEN [ok |-> FALSE] ELSE
         [ok |-> TRUE, bl |-> [ bt |-> IF bt = 1 THEN "lrle" ELSE "drle", t |-> ts % 16, ssrc |-> Sl(b, c, 4),
               bs |-> U16At(b, c + 4), es |-> U16At(b, c + 6),
               chunks |-> [i \in 1..((m - 8) \div 2) |-> U16At(b, c + 6 + 2 * i)] ]]
    [] bt = 3 ->
         IF m < 8 THEN [ok |-> FALSE] ELSE
         [ok |-> TRUE, bl |-> [ bt |-> "prt", t |-> ts % 16, ssrc |-> Sl(b, c, 4),
               bs |-> U16At(b, c + 4), es |-> U16At(b, c + 6),
               times |-> [i \in 1..((m - 8) \div 4) |-> Sl(b, c + 4 + 4 * i, 4)] ]]
    [] bt = 4 -> IF m # 8 THEN [ok |-> FALSE] ELSE [ok |-> TRUE, bl |-> [bt |-> "rrt", ntp |-> Sl(b, c, 8)]]
    [] bt = 5 -> IF m % 12 # 0 THEN [ok |-> FALSE] ELSE
         [ok |-> TRUE, bl |-> [ bt |-> "dlrr", reports |-> [i \in 1..(m \div 12) |->
               [ssrc |-> Sl(b, c + 12 * (i - 1), 4), lrr |-> Sl(b, c + 12 * (i - 1) + 4, 4), dlrr |-> Sl(b, c + 12 * (i - 1) + 8, 4)]] ]]
    [] bt = 6 -> IF m # 36 THEN [ok |-> FALSE] ELSE
         [ok |-> TRUE, bl |-> [ bt |-> "ss", l |-> Bits(ts, 7, 1) = 1, d |-> Bits(ts, 6, 1) = 1, j |-> Bits(ts, 5, 1) = 1,
               toh |-> Bits(ts, 3, 2), ssrc |-> Sl(b, c, 4), bs |-> U16At(b, c + 4), es |-> U16At(b, c + 6),
               lost |-> Sl(b, c + 8, 4), dup |-> Sl(b, c + 12, 4), minj |-> Sl(b, c + 16, 4), maxj |-> Sl(b, c + 20, 4),
               meanj |-> Sl(b, c + 24, 4), devj |-> Sl(b, c + 28, 4),
               mint |-> At(b, c + 32), maxt |-> At(b, c + 33), meant |-> At(b, c + 34), devt |-> At(b, c + 35) ]]
    [] bt = 7 -> IF m # 32 THEN [ok |-> FALSE] ELSE
         [ok |-> TRUE, bl |-> [ bt |-> "voip", ssrc |-> Sl(b, c, 4), lr |-> At(b, c + 4), dr |-> At(b, c + 5),
               bd |-> At(b, c + 6), gd |-> At(b, c + 7), bdur |-> U16At(b, c + 8), gdur |-> U16At(b, c + 10),
               rtd |-> U16At(b, c + 12), esd |-> U16At(b, c + 14), sl |-> At(b, c + 16), nl |-> At(b, c + 17),
               rerl |-> At(b, c + 18), gmin |-> At(b, c + 19), rf |-> At(b, c + 20), erf |-> At(b, c + 21),
               moslq |-> At(b, c + 22), moscq |-> At(b, c + 23), rxc |-> At(b, c + 24),
               jbn |-> U16At(b, c + 26), jbm |-> U16At(b, c + 28), jba |-> U16At(b, c + 30) ]]
    [] OTHER -> [ok |-> TRUE, bl |-> [bt |-> "unk", type |-> bt, ts |-> ts, bytes |-> Sl(b, c, m)]]

RECURSIVE XrBlocks(_, _, _)
XrBlocks(b, off, acc) ==
  IF off = Len(b) THEN [ok |-> TRUE, blocks |-> acc]
  ELSE IF off + 4 > Len(b) THEN [ok |-> FALSE]
  ELSE LET n == 4 * (U16At(b, off + 2) + 1) IN
       IF off + n > Len(b) THEN [ok |-> FALSE]
       ELSE LET r == DecXrBlock(b, off, n) IN
            IF ~r.ok THEN [ok |-> FALSE] ELSE XrBlocks(b, off + n, Append(acc, r.bl))

DecXR(b) ==
  IF ~(Framed(b) /\ HPT(b) = 207 /\ ~HP(b)) THEN NA
  ELSE IF Len(b) < 8 THEN Rej
  ELSE LET r == XrBlocks(b, 8, << >>) IN
       IF ~r.ok THEN NA ELSE Ok([k |-> "XR", sender |-> Sl(b, 4, 4), blocks |-> r.blocks])

XrBlockDest(bl) ==
  CASE bl.bt \in {"lrle", "drle", "prt", "ss", "voip"} -> << bl.ssrc >>
    [] bl.bt = "dlrr" -> [i \in 1..Len(bl.reports) |-> bl.reports[i].ssrc]
    [] OTHER -> << >>
DestXR(v) == << v.sender >> \o FlatMap(XrBlockDest, v.blocks)

\* RLE chunk accessors (C16): 0 terminating null; C=0 run: R(1) run(14); C=1 vector(15)
RleType(c)  == IF c = 0 THEN 2 ELSE c \div 32768
RleValue(c) == IF c = 0 THEN 0 ELSE IF c < 32768 THEN c % 16384 ELSE c % 32768
RleRunType(c) == IF RleType(c) = 0 THEN [ok |-> TRUE, v |-> Bits(c, 14, 1)] ELSE [ok |-> FALSE]
=============================================================================
