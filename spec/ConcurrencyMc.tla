---------------------------- MODULE ConcurrencyMc ----------------------------
EXTENDS Concurrency, Domain
McSharedVals == << Fb("PLI"), BaseNACK >>
McPrivVals == << Fb("RRR"), BaseBYE >>
=============================================================================
