------------------------------ MODULE Rfc3550 ------------------------------
(* SR, RR, SDES, BYE, APP and the reception report block, written from the  *)
(* figures of RFC 3550 section 6.  Each type T has                           *)
(*   WF_T(v)   well-formed: inside every wire limit                          *)
(*   Over_T(v) exceeds a wire limit named by property C08: Marshal must fail *)
(*   Size_T(v) encoded size in octets                                        *)
(*   Enc_T(v)  the encoding (defined for WF values)                          *)
(*   Dec_T(b)  Ok(v) for a strictly valid encoding that is exactly b,        *)
(*             Rej where the properties demand an error, NA otherwise        *)
(*   Dest_T(v) the DestinationSSRC list                                      *)
EXTENDS Hdr

MaxOctets == 262144    \* 4 * (65535 + 1): what the 16-bit length field can describe

---------------------------------------------------------------------------
\* reception report block, 24 octets.  lost is the Go uint32 as 4 octets; on
\* the wire it is 24 bits.
WFRB(r)   == r.lost[1] = 0 /\ r.fl \in Byte
OverRB(r) == r.lost[1] # 0
EncRB(r)  == r.ssrc \o << r.fl >> \o SubSeq(r.lost, 2, 4) \o r.seq \o r.jit \o r.lsr \o r.dlsr
DecRBAt(b, off) ==
  [ ssrc |-> Sl(b, off, 4), fl |-> At(b, off + 4), lost |-> << 0 >> \o Sl(b, off + 5, 3),
    seq |-> Sl(b, off + 8, 4), jit |-> Sl(b, off + 12, 4), lsr |-> Sl(b, off + 16, 4), dlsr |-> Sl(b, off + 20, 4) ]
\* ReceptionReport unit decoder: needs 24 octets
DecRBUnit(b) == IF Len(b) < 24 THEN Rej ELSE IF Len(b) = 24 THEN Ok(DecRBAt(b, 0)) ELSE NA
DecRBs(b, off, n) == [i \in 1..n |-> DecRBAt(b, off + 24 * (i - 1))]
RBSsrcs(rs) == [i \in 1..Len(rs) |-> rs[i].ssrc]

---------------------------------------------------------------------------
\* SR: PT 200
SizeSR(v) == 28 + 24 * Len(v.reports) + Len(v.ext)
WFSR(v)   == /\ Len(v.reports) <= 31
             /\ \A i \in 1..Len(v.reports) : WFRB(v.reports[i])
             /\ Len(v.ext) % 4 = 0
             /\ SizeSR(v) <= MaxOctets
OverSR(v) == Len(v.reports) > 31 \/ \E i \in 1..Len(v.reports) : OverRB(v.reports[i])
EncSR(v)  == EncHdr(FALSE, Len(v.reports), 200, SizeSR(v) \div 4 - 1)
             \o v.ssrc \o v.ntp \o v.rtp \o v.pc \o v.oc
             \o FlatMap(EncRB, v.reports) \o v.ext
DecSR(b)  ==
  IF ~Framed(b) \/ HPT(b) # 200 \/ HP(b) THEN NA
  ELSE IF Len(b) < 28 + 24 * HC(b) THEN Rej       \* count claims more blocks than are present
  ELSE Ok([ k |-> "SR", ssrc |-> Sl(b, 4, 4), ntp |-> Sl(b, 8, 8), rtp |-> Sl(b, 16, 4),
            pc |-> Sl(b, 20, 4), oc |-> Sl(b, 24, 4),
            reports |-> DecRBs(b, 28, HC(b)), ext |-> From(b, 28 + 24 * HC(b)) ])
DestSR(v) == RBSsrcs(v.reports) \o << v.ssrc >>

---------------------------------------------------------------------------
\* RR: PT 201.  The library zero-pads unaligned profile extensions (documented
\* quantisation, C02).
NormRR(v) == [v EXCEPT !.ext = Pad4(v.ext)]
SizeRR(v) == 8 + 24 * Len(v.reports) + Len(Pad4(v.ext))
WFRR(v)   == /\ Len(v.reports) <= 31
             /\ \A i \in 1..Len(v.reports) : WFRB(v.reports[i])
             /\ SizeRR(v) <= MaxOctets
OverRR(v) == Len(v.reports) > 31 \/ \E i \in 1..Len(v.reports) : OverRB(v.reports[i])
EncRR(v)  == EncHdr(FALSE, Len(v.reports), 201, SizeRR(v) \div 4 - 1)
             \o v.ssrc \o FlatMap(EncRB, v.reports) \o Pad4(v.ext)
DecRR(b)  ==
  IF ~Framed(b) \/ HPT(b) # 201 \/ HP(b) THEN NA
  ELSE IF Len(b) < 8 + 24 * HC(b) THEN Rej
  ELSE Ok([ k |-> "RR", ssrc |-> Sl(b, 4, 4),
            reports |-> DecRBs(b, 8, HC(b)), ext |-> From(b, 8 + 24 * HC(b)) ])
DestRR(v) == RBSsrcs(v.reports)

---------------------------------------------------------------------------
\* SDES: PT 202.  chunk = SSRC, items (type, length, text), a null octet,
\* then nulls up to the next 32-bit boundary.
ItemLen(it)   == 2 + Len(it.text)
ChunkRaw(c)   == 4 + SeqSum([i \in 1..Len(c.items) |-> ItemLen(c.items[i])]) + 1
ChunkSize(c)  == ChunkRaw(c) + PadLen(ChunkRaw(c))
SizeSDES(v)   == 4 + SeqSum([i \in 1..Len(v.chunks) |-> ChunkSize(v.chunks[i])])
WFItem(it)    == it.t \in 1..255 /\ Len(it.text) <= 255
OverItem(it)  == it.t = 0 \/ Len(it.text) > 255
WFChunk(c)    == \A i \in 1..Len(c.items) : WFItem(c.items[i])
OverChunk(c)  == \E i \in 1..Len(c.items) : OverItem(c.items[i])
WFSDES(v)     == /\ Len(v.chunks) <= 31
                 /\ \A i \in 1..Len(v.chunks) : WFChunk(v.chunks[i])
                 /\ SizeSDES(v) <= MaxOctets
OverSDES(v)   == Len(v.chunks) > 31 \/ \E i \in 1..Len(v.chunks) : OverChunk(v.chunks[i])
EncItem(it)   == << it.t, Len(it.text) >> \o it.text
EncChunk(c)   == Pad4(c.src \o FlatMap(EncItem, c.items) \o << 0 >>)
EncSDES(v)    == EncHdr(FALSE, Len(v.chunks), 202, SizeSDES(v) \div 4 - 1) \o FlatMap(EncChunk, v.chunks)

\* SourceDescriptionItem unit
DecItemUnit(b) ==
  IF Len(b) < 2 \/ 2 + At(b, 1) > Len(b) THEN Rej
  ELSE IF 2 + At(b, 1) = Len(b) /\ At(b, 0) # 0 THEN Ok([t |-> At(b, 0), text |-> Sl(b, 2, At(b, 1))])
  ELSE NA

RECURSIVE ParseItems(_, _, _)
ParseItems(b, off, acc) ==
  IF off >= Len(b) THEN [ok |-> FALSE]
  ELSE IF At(b, off) = 0 THEN [ok |-> TRUE, items |-> acc, endoff |-> off]
  ELSE IF off + 2 > Len(b) \/ off + 2 + At(b, off + 1) > Len(b) THEN [ok |-> FALSE]
  ELSE ParseItems(b, off + 2 + At(b, off + 1),
                  Append(acc, [t |-> At(b, off), text |-> Sl(b, off + 2, At(b, off + 1))]))

\* one chunk starting at off: [ok, chunk, next]
ParseChunk(b, off) ==
  IF off + 4 > Len(b) THEN [ok |-> FALSE]
  ELSE LET r == ParseItems(b, off + 4, << >>) IN
       IF ~r.ok THEN [ok |-> FALSE]
       ELSE LET e == (r.endoff + 1) + PadLen(r.endoff + 1 - off) IN
            IF e > Len(b) \/ ~AllZero(SubSeq(b, r.endoff + 1, e)) THEN [ok |-> FALSE]
            ELSE [ok |-> TRUE, chunk |-> [src |-> Sl(b, off, 4), items |-> r.items], next |-> e]

RECURSIVE ParseChunks(_, _, _)
ParseChunks(b, off, acc) ==
  IF off = Len(b) THEN [ok |-> TRUE, chunks |-> acc]
  ELSE LET r == ParseChunk(b, off) IN
       IF ~r.ok THEN [ok |-> FALSE] ELSE ParseChunks(b, r.next, Append(acc, r.chunk))

\* SourceDescriptionChunk unit: the buffer is exactly one padded chunk
DecChunkUnit(b) ==
  IF Len(b) < 5 THEN Rej
  ELSE LET r == ParseChunk(b, 0) IN
       IF r.ok /\ r.next = Len(b) THEN Ok(r.chunk) ELSE NA

DecSDES(b) ==
  IF ~Framed(b) \/ HPT(b) # 202 \/ HP(b) THEN NA
  ELSE LET r == ParseChunks(b, 4, << >>) IN
       IF ~r.ok THEN NA
       ELSE IF Len(r.chunks) < HC(b) THEN Rej       \* count claims more chunks than are present
       ELSE IF Len(r.chunks) > HC(b) THEN NA
       ELSE Ok([k |-> "SDES", chunks |-> r.chunks])
DestSDES(v) == [i \in 1..Len(v.chunks) |-> v.chunks[i].src]

---------------------------------------------------------------------------
\* BYE: PT 203
ByeRaw(v)   == 4 + 4 * Len(v.srcs) + (IF Len(v.reason) > 0 THEN 1 + Len(v.reason) ELSE 0)
SizeBYE(v)  == ByeRaw(v) + PadLen(ByeRaw(v))
WFBYE(v)    == Len(v.srcs) <= 31 /\ Len(v.reason) <= 255
OverBYE(v)  == Len(v.srcs) > 31 \/ Len(v.reason) > 255
EncBYE(v)   == Pad4( EncHdr(FALSE, Len(v.srcs), 203, SizeBYE(v) \div 4 - 1)
                     \o FlatSeq(v.srcs)
                     \o (IF Len(v.reason) > 0 THEN << Len(v.reason) >> \o v.reason ELSE << >>) )
DecBYE(b)   ==
  IF ~Framed(b) \/ HPT(b) # 203 \/ HP(b) THEN NA
  ELSE LET n == HC(b)  ro == 4 + 4 * HC(b) IN
       IF ro > Len(b) THEN Rej                     \* count claims more sources than are present
       ELSE LET srcs == [i \in 1..n |-> Sl(b, 4 * i, 4)] IN
            IF ro = Len(b) THEN Ok([k |-> "BYE", srcs |-> srcs, reason |-> << >>])
            ELSE LET e == ro + 1 + At(b, ro) IN
                 IF e > Len(b) \/ e + PadLen(e) # Len(b) \/ ~AllZero(From(b, e)) THEN NA
                 ELSE Ok([k |-> "BYE", srcs |-> srcs, reason |-> Sl(b, ro + 1, At(b, ro))])
DestBYE(v)  == v.srcs

---------------------------------------------------------------------------
\* APP: PT 204.  Unaligned data is padded using the P bit (library choice,
\* modelled as documented); only the last padding octet is specified.
AppPad(v)   == PadLen(Len(v.data))
SizeAPP(v)  == 12 + Len(v.data) + AppPad(v)
WFAPP(v)    == v.st \in 0..31 /\ Len(v.name) = 4 /\ Len(v.data) <= 65523
OverAPP(v)  == v.st > 31 \/ Len(v.name) # 4
EncAPP(v)   == EncHdr(AppPad(v) # 0, v.st, 204, SizeAPP(v) \div 4 - 1)
               \o v.ssrc \o v.name \o v.data \o Fill(AppPad(v), AppPad(v))
\* octet positions (1-based) of EncAPP(v) whose value is unspecified
AppDontCare(v) == IF AppPad(v) > 1 THEN (12 + Len(v.data) + 1)..(SizeAPP(v) - 1) ELSE {}
DecAPP(b)   ==
  IF ~Framed(b) \/ HPT(b) # 204 THEN NA
  ELSE IF Len(b) < 12 THEN Rej
  ELSE LET mk(d) == [k |-> "APP", st |-> HC(b), ssrc |-> Sl(b, 4, 4), name |-> Sl(b, 8, 4), data |-> d] IN
       IF ~HP(b) THEN Ok(mk(From(b, 12)))
       ELSE LET n == At(b, Len(b) - 1) IN
            IF n = 0 \/ n > Len(b) - 12 THEN NA
            ELSE Ok(mk(Sl(b, 12, Len(b) - 12 - n)))
DestAPP(v)  == << v.ssrc >>
=============================================================================
