------------------------------- MODULE UnitsMc -------------------------------
(* The table machine for Units.tla: one state per (unit, row).              *)
EXTENDS Units

CONSTANTS Tables     \* set of [unit, rows]: which rows (0..255) of which unit's 2^16 table

AllRows == 0..255
\* quick: every 8th row plus the first and last rows of each table; thorough: every row
SomeRows == { r \in AllRows : r % 8 = 0 } \cup {1, 127, 128, 254, 255}
FullTables == { [unit |-> u, rows |-> AllRows] : u \in {"rl", "sv", "delta2", "mb", "rle", "hdrlen"} }
              \cup { [unit |-> "delta1", rows |-> {0}], [unit |-> "hdr01", rows |-> 0..63] }
QuickTables == { [unit |-> u, rows |-> SomeRows] : u \in {"rl", "sv", "delta2", "mb", "rle", "hdrlen"} }
               \cup { [unit |-> "delta1", rows |-> {0}], [unit |-> "hdr01", rows |-> { r \in 0..63 : r % 4 = 0 } \cup {31, 63}] }

VARIABLES unit, row, phase
uvars == << unit, row, phase >>
UInit == phase = "pick" /\ unit = "" /\ row = 0
Emit(rec) == PrintT(<< "VERIF_BEH", ToJson(rec) >>)
\* two levels (unit and group of rows first, then the row) so that TLC's
\* workers share the rows
UNext ==
  \/ /\ phase = "pick" /\ \E t \in Tables, g \in 0..15 : unit' = t.unit /\ row' = g
     /\ phase' = "group"
  \/ /\ phase = "group"
     /\ \E t \in Tables : t.unit = unit /\ \E r \in t.rows :
          /\ r % 16 = row /\ row' = r /\ unit' = unit
          /\ Emit([script |-> "utable", unit |-> unit, start |-> 256 * r])
     /\ phase' = "row"
USpec == UInit /\ [][UNext]_uvars

Words == { 256 * row + i : i \in 0..255 }
\* decode-then-encode is the identity on canonical wire words
DecEnc == (phase = "row" /\ unit # "rle") => \A w \in Words : EncU(unit, DecU(unit, w)) = WordBytes(unit, w)
\* encode-then-decode is the identity on values (every value is the decoding of its canonical word)
EncDec == (phase = "row" /\ unit \in {"rl", "sv", "delta2", "mb"}) =>
  \A w \in Words : LET x == DecU(unit, w)  bs == EncU(unit, x) IN DecU(unit, U16At(bs, 0)) = x
\* RLE chunk accessors partition the 16-bit space: null, run (R + 14 bits), vector (15 bits)
RlePartition == (phase = "row" /\ unit = "rle") => \A c \in Words :
  /\ RleType(c) \in {0, 1, 2}
  /\ (RleType(c) = 2) = (c = 0)
  /\ (RleType(c) = 0 => c = RleRunType(c).v * 16384 + RleValue(c))
  /\ (RleType(c) = 1 => c = 32768 + RleValue(c))
=============================================================================
